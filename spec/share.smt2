; share accounting spec functions (C02), with cosmos-math's exact rounding
(define-fun shares_from_tokens ((S Int) (x Int) (T Int)) Int (tdiv (* S x) T))
(define-fun tokens_from_shares ((s Int) (S Int) (T Int)) Int (chop_trunc (dec_quo (* s T) S)))
; what a staker holding s of S shares redeems when undelegating all of s from a pool of T tokens
(define-fun redeem_all ((s Int) (S Int) (T Int)) Int (ite (= s S) T (tokens_from_shares s S T)))
