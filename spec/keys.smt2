; byte-level prefix relation on the key families of the repository (assumed key algebra, DESIGN.md 2.6).
; hexu64(n) is hexutil.EncodeUint64 ("0x" + hex digits without leading zeros); kf 1002/1003/1004 are strings.Join of
; 2/3/4 parts with "/". A hex string "0x1" is a byte prefix of "0x10/..." : hexproper captures exactly that.
(declare-fun bprefix_u (Bytes Bytes) Bool)
(define-fun SLASH () Bytes (blit 1022874479593983))
(define-fun hexproper ((h Int) (c Int)) Bool (and (> h 0) (or (= (div c 16) h) (= (div c 256) h) (= (div c 4096) h) (= (div c 65536) h) (= (div c 1048576) h) (= (div c 16777216) h) (= (div c 268435456) h) (= (div c 4294967296) h) (= (div c 68719476736) h) (= (div c 1099511627776) h) (= (div c 17592186044416) h) (= (div c 281474976710656) h) (= (div c 4503599627370496) h) (= (div c 72057594037927936) h) (= (div c 1152921504606846976) h))))
(define-fun is_hexu64 ((b Bytes)) Bool (and ((_ is kf) b) (= (kf_id b) 2) ((_ is bint) (kf_1 b))))
(define-fun hexv ((b Bytes)) Int (bint_v (kf_1 b)))
(define-fun is_join ((b Bytes) (n Int)) Bool (and ((_ is kf) b) (= (kf_id b) (+ 1000 n))))
(define-fun bprefix ((p Bytes) (k Bytes)) Bool
  (ite (= p (blit 0)) true
  (ite (= p bnil) true
  (ite (= p k) true
  (ite (and (is_hexu64 p) (is_join k 2) (is_hexu64 (kf_1 k)))
       (or (= (hexv p) (hexv (kf_1 k))) (hexproper (hexv p) (hexv (kf_1 k))))
  (ite (and ((_ is cat) p) (is_hexu64 (cat_a p)) (= (cat_b p) SLASH) (is_join k 2) (is_hexu64 (kf_1 k)))
       (= (hexv (cat_a p)) (hexv (kf_1 k)))
  (ite (and ((_ is cat) p) (is_join (cat_a p) 2) (= (cat_b p) SLASH) (is_join k 3))
       (and (= (kf_1 (cat_a p)) (kf_1 k)) (= (kf_2 (cat_a p)) (kf_2 k)))
  (bprefix_u p k))))))))
; fields of an undelegation record key join(op, hex(height), hex(nonce), txhash)
(define-fun urkey_height ((k Bytes)) Int (hexv (kf_2 k)))
(define-fun urkey_nonce ((k Bytes)) Int (hexv (kf_3 k)))
(define-fun urkey_op ((k Bytes)) Bytes (kf_1 k))
(define-fun pendkey_height ((k Bytes)) Int (hexv (kf_1 k)))
; under(p, k): k is a key of the prefix store p, i.e. k = cat(p, rest) in the right-nested normal form every key
; written or read through prefix.NewStore(_, p) has in this model
(define-fun under ((p Bytes) (k Bytes)) Bool (and ((_ is cat) k) (= (cat_a k) p)))
