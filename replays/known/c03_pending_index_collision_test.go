package keeper_test

// Replay of the refuted lemma C03.L.pendidx (a pending-index key identifies one undelegation record): the solver's
// counterexample are two records with the same completion height and nonce but different operators / tx hashes. Both
// records are stored, but they share one pending-index entry, so only one of them is found - and released - at the
// completion height; the other is never released. Injected with `go test -overlay` (never written into /repo).

import (
	sdkmath "cosmossdk.io/math"
	"github.com/ExocoreNetwork/exocore/x/delegation/types"
	"github.com/ethereum/go-ethereum/common"
)

func (suite *DelegationTestSuite) TestVerifReplayPendingIndexCollision() {
	ctx := suite.Ctx.WithBlockHeight(1)
	mk := func(operator string, tx int64) types.UndelegationRecord {
		return types.UndelegationRecord{
			StakerID:              "0x3e108c058e8066da635321dc3018294ca82ddedf_0x65",
			AssetID:               "0xdac17f958d2ee523a2206206994597c13d831ec7_0x65",
			OperatorAddr:          operator,
			TxHash:                common.BigToHash(sdkmath.NewInt(tx).BigInt()).Hex(),
			IsPending:             true,
			BlockNumber:           1,
			CompleteBlockNumber:   20,
			LzTxNonce:             7, // e.g. the same LayerZero nonce arriving from two client chains
			Amount:                sdkmath.NewInt(10),
			ActualCompletedAmount: sdkmath.NewInt(10),
		}
	}
	k := suite.App.DelegationKeeper
	suite.NoError(k.SetUndelegationRecords(ctx, []types.UndelegationRecord{
		mk("exo18cggcpvwspnd5c6ny8wrqxpffj5zmhklprtnph", 1),
		mk("exo1w8wxyg5gwxr5n4l3yq6zsq0pyd3qu7uvywfjtn", 2),
	}))
	all, err := k.AllUndelegations(ctx)
	suite.NoError(err)
	due, err := k.GetPendingUndelegationRecords(ctx, 20)
	suite.NoError(err)
	suite.Equal(2, len(all), "both records are stored")
	suite.Equal(len(all), len(due),
		"REPLAY-CONFIRMED if different: %d records complete at height 20 but only %d are found there", len(all), len(due))
}
