package oracle_test

import (
	reflect "reflect"
	"testing"

	keepertest "github.com/ExocoreNetwork/exocore/testutil/keeper"
	dogfoodkeeper "github.com/ExocoreNetwork/exocore/x/dogfood/keeper"
	dogfoodtypes "github.com/ExocoreNetwork/exocore/x/dogfood/types"
	"github.com/ExocoreNetwork/exocore/x/oracle"
	"github.com/ExocoreNetwork/exocore/x/oracle/keeper"
	"github.com/ExocoreNetwork/exocore/x/oracle/types"
	"github.com/agiledragon/gomonkey/v2"
	abci "github.com/cometbft/cometbft/abci/types"
	"github.com/cosmos/cosmos-sdk/codec"
	codectypes "github.com/cosmos/cosmos-sdk/codec/types"
	"github.com/cosmos/cosmos-sdk/testutil/mock"
	sdk "github.com/cosmos/cosmos-sdk/types"
	"github.com/stretchr/testify/assert"
	"github.com/stretchr/testify/require"
)

// Replay of the failing obligation (x/oracle/keeper.Keeper).AppendPriceTR/C12.aptr.window/inv-entry:loop1.2: after a round
// is appended the stored rounds of the token are the last MaxSizePrices ones - whatever number was configured when the
// previous round was appended. The solver's counterexample: the number configured before (ghost prev_max_size_prices)
// is larger than the current one, and a round between the two windows is still stored. History: MaxSizePrices is 5,
// rounds 1..8 are appended (4..8 are kept), a parameter update lowers MaxSizePrices to 2, round 9 is appended: only round
// 7 is dropped, rounds 4, 5, 6, 8 and 9 stay - and 4, 5, 6 are never dropped any more.
// Injected with `go test -overlay` (never written into /repo).

func TestVerifReplayRetentionAfterLowering(t *testing.T) {
	keeper.ResetAggregatorContext()
	keeper.ResetCache()
	defer func() {
		keeper.ResetAggregatorContext()
		keeper.ResetCache()
	}()
	k, ctx := keepertest.OracleKeeper(t)
	am := oracle.NewAppModule(codec.NewProtoCodec(codectypes.NewInterfaceRegistry()), *k, nil, nil)
	ms := keeper.NewMsgServerImpl(*k)
	tmPk, err := mock.NewPV().GetPubKey()
	require.NoError(t, err)
	exoVals := []dogfoodtypes.ExocoreValidator{{Address: tmPk.Address().Bytes(), Power: 1}}
	patches := gomonkey.ApplyMethod(reflect.TypeOf(dogfoodkeeper.Keeper{}), "GetAllExocoreValidators", func(dogfoodkeeper.Keeper, sdk.Context) []dogfoodtypes.ExocoreValidator {
		return exoVals
	})
	patches.ApplyMethod(reflect.TypeOf(dogfoodkeeper.Keeper{}), "GetValidatorUpdates", func(dogfoodkeeper.Keeper, sdk.Context) []abci.ValidatorUpdate {
		return nil
	})
	defer patches.Reset()

	setMax := func(h int64, n int32) {
		c := ctx.WithBlockHeight(h)
		_, err := ms.UpdateParams(c, &types.MsgUpdateParams{Params: types.Params{MaxSizePrices: n}})
		require.NoError(t, err)
		am.EndBlock(c, abci.RequestEndBlock{Height: h})
		require.EqualValues(t, n, k.GetParams(c).MaxSizePrices)
		require.EqualValues(t, n, keeper.GetAggregatorContext(c, *k).GetParamsMaxSizePrices())
	}
	stored := func() []uint64 {
		var ids []uint64
		for _, p := range k.GetAllPrices(ctx) {
			if p.TokenID == 1 {
				for _, tr := range p.PriceList {
					ids = append(ids, tr.RoundID)
				}
			}
		}
		return ids
	}
	appendRound := func(h int64) {
		r := k.GetNextRoundID(ctx, 1)
		ok := k.AppendPriceTR(ctx.WithBlockHeight(h), 1, types.PriceTimeRound{Price: "100", Decimal: 8, Timestamp: "t", RoundID: r})
		require.True(t, ok, "round %d is the next round", r)
	}

	setMax(2, 5)
	for i := 0; i < 8; i++ {
		appendRound(3 + int64(i))
	}
	require.Len(t, stored(), 5, "with MaxSizePrices 5 the last five rounds are kept: %v", stored())
	setMax(20, 2)
	appendRound(21)
	assert.LessOrEqual(t, len(stored()), 2, "REPLAY-CONFIRMED if more: MaxSizePrices is 2, stored rounds of token 1 are %v", stored())
	appendRound(22)
	appendRound(23)
	assert.LessOrEqual(t, len(stored()), 2, "REPLAY-CONFIRMED if more: two rounds later the stored rounds of token 1 are still %v", stored())
}
