package assets_test

// Replay of the failing obligation (precompiles/assets.Precompile).RegisterToken/C09.pa.rt.atomic: a failed
// RegisterToken leaves no trace. The solver's counterexample is the path on which the oracle token and feeder have been
// registered and SetStakingAssetInfo then refuses the asset; input used here: a token with 19 decimals (MaxDecimal is
// 18) registered by the gateway. Run() turns the error into `false`, so nothing rolls the oracle registration back.
// Injected with `go test -overlay` (never written into /repo).

import (
	"math/big"

	assetsprecompile "github.com/ExocoreNetwork/exocore/precompiles/assets"
	assetstype "github.com/ExocoreNetwork/exocore/x/assets/types"
	"github.com/ethereum/go-ethereum/common"
	"github.com/ethereum/go-ethereum/core/vm"
)

func (s *AssetsPrecompileSuite) TestVerifReplayRegisterTokenAtomic() {
	s.Require().NoError(s.App.AssetsKeeper.SetParams(s.Ctx, &assetstype.Params{
		ExocoreLzAppAddress:    s.Address.String(),
		ExocoreLzAppEventTopic: "0xc6a377bfc4eb120024a8ac08eef205be16b817020812c73223e81d1bdb9708ec",
	}))
	tokenAddr := paddingClientChainAddress(common.FromHex("0x1111111111111111111111111111111111111111"), assetstype.GeneralClientChainAddrLength)
	method := s.precompile.Methods[assetsprecompile.MethodRegisterToken]
	args := []interface{}{uint32(101), tokenAddr, uint8(19), "WEIRD", "a token with 19 decimals", "WEIRD,Ethereum,8"}
	contract := vm.NewPrecompile(vm.AccountRef(s.Address), s.precompile, big.NewInt(0), uint64(1e6))
	tokensBefore := len(s.App.OracleKeeper.GetParams(s.Ctx).Tokens)
	feedersBefore := len(s.App.OracleKeeper.GetParams(s.Ctx).TokenFeeders)
	_, err := s.precompile.RegisterToken(s.Ctx, contract, &method, args)
	s.Require().Error(err, "19 decimals are more than the assets module accepts")
	_, assetID := assetstype.GetStakerIDAndAssetIDFromStr(101, "", "0x1111111111111111111111111111111111111111")
	s.False(s.App.AssetsKeeper.IsStakingAsset(s.Ctx, assetID), "the asset is not registered")
	after := s.App.OracleKeeper.GetParams(s.Ctx)
	s.Equal(tokensBefore, len(after.Tokens), "REPLAY-CONFIRMED if different: the failed registration left an oracle token behind")
	s.Equal(feedersBefore, len(after.TokenFeeders), "REPLAY-CONFIRMED if different: the failed registration left a token feeder behind")
}
