package keeper_test

// Replay of the failing obligation (x/avs/keeper.EpochsHooksWrapper).AfterEpochEnd/C20.aee.found: the task record is
// used only if it was found. The solver's counterexample is a group of results none of which carries a BLS signature:
// task id and address stay empty, GetTaskInfo fails, its error is only logged and the nil record is dereferenced - in
// BeginBlock. History used here: one operator submits phase one with an EMPTY (non-nil) signature, which passes the
// `BlsSignature == nil` check and is decoded from the store as nil. Injected with `go test -overlay`.

import (
	"time"

	sdkmath "cosmossdk.io/math"
	avstypes "github.com/ExocoreNetwork/exocore/x/avs/types"
	"github.com/ethereum/go-ethereum/common"
)

func (suite *AVSTestSuite) TestVerifReplayEmptySignatureEpochEnd() {
	usdtAddress := common.HexToAddress("0xdAC17F958D2ee523a2206206994597C13D831ec7")
	suite.prepareOperators()
	suite.prepareMulDeposit(usdtAddress, sdkmath.NewInt(500))
	suite.prepareDelegations()
	suite.prepareMulAvs([]string{"0xdac17f958d2ee523a2206206994597c13d831ec7_0x65"})
	suite.prepareMulOptIn()
	suite.prepareMulOperatorubkey()
	suite.prepareMulTaskInfo()
	suite.CommitAfter(time.Hour*1 + time.Nanosecond)
	info := &avstypes.TaskResultInfo{
		TaskContractAddress: suite.taskAddress.String(),
		OperatorAddress:     suite.operatorAddresses[0],
		TaskId:              suite.taskId,
		BlsSignature:        []byte{}, // empty, but not nil
		Stage:               avstypes.TwoPhaseCommitOne,
	}
	err := suite.App.AVSManagerKeeper.SetTaskResultInfo(suite.Ctx, suite.operatorAddresses[0], info)
	suite.Require().NoError(err, "phase one with an empty signature is accepted")
	suite.NotPanics(func() {
		// run past the end of the task's statistical period
		for i := 0; i < 6; i++ {
			suite.CommitAfter(suite.EpochDuration)
		}
	}, "REPLAY-CONFIRMED if it panics: the epoch-end hook dereferences a task record that was not found")
}
