package keeper_test

// Replay of the SMT counterexample to lemma C03.L.accept (amount within the redeemable value of the
// staker's shares needs no more shares than the staker has): S = 4.000000000000000002 shares,
// T = 2 tokens, staker share s = 2.0, amount x = 1. TokensFromShares reports a position of 1 token
// (banker's rounding up of 0.9999999999999999995), yet undelegating 1 token needs 2.000000000000000001 shares.

import (
	"testing"

	sdkmath "cosmossdk.io/math"
	"github.com/ExocoreNetwork/exocore/x/delegation/keeper"
)

func TestVerifReplayAcceptRounding(t *testing.T) {
	S := sdkmath.LegacyNewDecFromBigIntWithPrec(sdkmath.NewIntFromUint64(4000000000000000002).BigInt(), 18)
	T := sdkmath.NewInt(2)
	s := sdkmath.LegacyNewDec(2)
	position, err := keeper.TokensFromShares(s, S, T)
	if err != nil {
		t.Fatal(err)
	}
	need, err := keeper.SharesFromTokens(S, position, T)
	if err != nil {
		t.Fatal(err)
	}
	t.Logf("position=%s tokens, shares needed to undelegate it=%s, shares held=%s", position, need, s)
	if position.IsPositive() && need.GT(s) {
		t.Fatalf("REPLAY-CONFIRMED: undelegating the whole reported position (%s) needs %s shares > %s held: ValidateUndelegationAmount rejects it", position, need, s)
	}
}
