package keeper_test

// Replay of the failing obligation (*x/operator/keeper.Keeper).setOperatorConsKeyForChainID/C07.sock.intermediate: when
// a key is replaced whose replacement hook is not called (a previous key is already recorded for this epoch), the
// reverse lookup of the key being replaced is deleted - otherwise nothing ever prunes it.
// The solver's counterexample: the operator already holds a key (found), a previous key is already recorded
// (alreadyRecorded) and the reverse lookup of the key being replaced is still there at return. History that produces it:
// an active validator replaces key A by B and, in the same epoch, B by C. A is queued for pruning (the hook ran for
// A->B); B never became active, its forward entries are overwritten by C, but its reverse entry B -> operator stays
// forever: the indexes disagree and nobody can ever register B again.
// Injected with `go test -overlay` (never written into /repo).

import (
	utiltx "github.com/ExocoreNetwork/exocore/testutil/tx"
	avstypes "github.com/ExocoreNetwork/exocore/x/avs/types"
	operatortypes "github.com/ExocoreNetwork/exocore/x/operator/types"
)

func (suite *KeeperTestSuite) TestVerifReplayIntermediateKeyLeak() {
	chainID := avstypes.ChainIDWithoutRevision(suite.Ctx.ChainID())
	op, other := suite.Operators[0], suite.Operators[1]
	found, keyA, err := suite.App.OperatorKeeper.GetOperatorConsKeyForChainID(suite.Ctx, op, chainID)
	suite.Require().NoError(err)
	suite.Require().True(found)
	_, isVal := suite.App.StakingKeeper.GetExocoreValidator(suite.Ctx, keyA.ToConsAddr())
	suite.Require().True(isVal, "genesis operator is an active validator with key A")
	keyB, keyC := utiltx.GenerateConsensusKey(), utiltx.GenerateConsensusKey()
	// same epoch: A -> B, then B -> C
	suite.Require().NoError(suite.App.OperatorKeeper.SetOperatorConsKeyForChainID(suite.Ctx, op, chainID, keyB))
	suite.Require().NoError(suite.App.OperatorKeeper.SetOperatorConsKeyForChainID(suite.Ctx, op, chainID, keyC))
	found, cur, _ := suite.App.OperatorKeeper.GetOperatorConsKeyForChainID(suite.Ctx, op, chainID)
	suite.Require().True(found && cur.EqualsWrapped(keyC), "the operator's key is C")
	_, bActive := suite.App.StakingKeeper.GetExocoreValidator(suite.Ctx, keyB.ToConsAddr())
	suite.Require().False(bActive, "B never was in the validator set")
	// B is neither the operator's key nor its recorded previous key: its reverse entry has no reason to exist
	stillThere, whose := suite.App.OperatorKeeper.GetOperatorAddressForChainIDAndConsAddr(suite.Ctx, chainID, keyB.ToConsAddr())
	suite.False(stillThere, "REPLAY-CONFIRMED if true: key B still resolves to operator %s although it holds key C and B was never active", whose)
	// and it is never pruned: wait out the unbonding epochs
	n := int(suite.App.StakingKeeper.GetEpochsUntilUnbonded(suite.Ctx))
	for i := 0; i < n+2; i++ {
		suite.CommitAfter(suite.EpochDuration)
		suite.Commit()
	}
	stillThere, _ = suite.App.OperatorKeeper.GetOperatorAddressForChainIDAndConsAddr(suite.Ctx, chainID, keyB.ToConsAddr())
	suite.False(stillThere, "REPLAY-CONFIRMED if true: key B is still registered %d epochs later", n+2)
	err = suite.App.OperatorKeeper.SetOperatorConsKeyForChainID(suite.Ctx, other, chainID, keyB)
	suite.NotErrorIs(err, operatortypes.ErrConsKeyAlreadyInUse, "REPLAY-CONFIRMED if in use: nobody can ever register key B again")
}
