package keeper_test

// Replay of the failing obligation (x/avs/keeper.Keeper).RaiseAndResolveChallenge/C10.rrc.owner (guard before
// SetTaskChallengedInfo: the caller recorded for the challenge is a listed owner of the AVS that the task contract
// belongs to). The solver's counterexample is any path to the write: no comparison with the owner list exists.
// History used here: the suite's AVS (owner list empty, so nobody is a listed owner) with one task and one two-phase
// result; in the challenge window a challenge attributed to an arbitrary address is recorded.
// Injected with `go test -overlay` (never written into /repo).

import (
	"math/big"

	avskeeper "github.com/ExocoreNetwork/exocore/x/avs/keeper"
	avstypes "github.com/ExocoreNetwork/exocore/x/avs/types"
	sdk "github.com/cosmos/cosmos-sdk/types"
	"github.com/ethereum/go-ethereum/common"

	utiltx "github.com/ExocoreNetwork/exocore/testutil/tx"
)

func (suite *AVSTestSuite) TestVerifReplayChallengeWithoutOwner() {
	suite.TestSubmitTask_OnlyPhaseTwo()
	taskRes := avstypes.TaskResponse{TaskID: 1, NumberSum: big.NewInt(100)}
	digest, err := avstypes.GetTaskResponseDigestEncodeByAbi(taskRes)
	suite.Require().NoError(err)
	stranger := sdk.AccAddress(utiltx.GenerateAddress().Bytes()).String()
	avsInfo := suite.App.AVSManagerKeeper.GetAVSInfoByTaskAddress(suite.Ctx, suite.taskAddress.String())
	for _, o := range avsInfo.AvsOwnerAddress {
		suite.Require().NotEqual(o, stranger)
	}
	params := &avskeeper.ChallengeParams{
		TaskContractAddress: common.Address(suite.taskAddress.Bytes()),
		TaskHash:            []byte("req-struct"),
		TaskID:              suite.taskId,
		TaskResponseHash:    digest[:],
		OperatorAddress:     suite.operatorAddr,
		CallerAddress:       stranger,
	}
	// move into the challenge window (after the statistical period)
	accepted := false
	for i := 0; i < 4 && !accepted; i++ {
		suite.CommitAfter(suite.EpochDuration)
		if err := suite.App.AVSManagerKeeper.RaiseAndResolveChallenge(suite.Ctx, params); err == nil {
			accepted = true
		}
	}
	suite.False(accepted,
		"REPLAY-CONFIRMED if true: a challenge attributed to %s, who is not a listed owner of the AVS (owners: %v), was recorded", stranger, avsInfo.AvsOwnerAddress)
}
