package keeper_test

// Replay of the failing obligation (*x/operator/keeper.Keeper).SlashAssets/C04.sa.nopanic (Dec division by zero in
// LegacyDec.Quo): the slash fraction is power * factor divided by the operator's current USD value; the solver's
// counterexample is an operator whose value is 0. History used here: the operator is slashed by 100% (downtime), then
// a second infraction (double sign) is reported for it. Injected with `go test -overlay` (never written into /repo).

import (
	"time"

	sdkmath "cosmossdk.io/math"
	avstypes "github.com/ExocoreNetwork/exocore/x/avs/types"
	"github.com/ExocoreNetwork/exocore/x/operator/keeper"
	"github.com/ExocoreNetwork/exocore/x/operator/types"
	stakingtypes "github.com/cosmos/cosmos-sdk/x/staking/types"
	"github.com/ethereum/go-ethereum/common"
)

func (suite *OperatorTestSuite) TestVerifReplaySlashZeroValue() {
	suite.prepareOperator()
	usdtAddress := common.HexToAddress("0xdAC17F958D2ee523a2206206994597C13D831ec7")
	suite.prepareDeposit(usdtAddress, sdkmath.NewIntWithDecimal(100, 6))
	suite.prepareDelegation(true, suite.assetAddr, sdkmath.NewIntWithDecimal(100, 6))
	avsAddr := avstypes.GenerateAVSAddr(avstypes.ChainIDWithoutRevision(suite.Ctx.ChainID()))
	suite.NoError(suite.App.DelegationKeeper.AssociateOperatorWithStaker(suite.Ctx, suite.clientChainLzID, suite.operatorAddr, suite.Address[:]))
	suite.NoError(suite.App.OperatorKeeper.OptIn(suite.Ctx, suite.operatorAddr, avsAddr))
	suite.CommitAfter(time.Hour*24 + time.Nanosecond)
	infractionHeight := suite.Ctx.BlockHeight()
	vals, err := suite.App.OperatorKeeper.GetOperatorOptedUSDValue(suite.Ctx, avsAddr, suite.operatorAddr.String())
	suite.NoError(err)
	power := vals.TotalUSDValue.TruncateInt64()
	suite.NextBlock()
	mk := func(t stakingtypes.Infraction) *types.SlashInputInfo {
		return &types.SlashInputInfo{
			IsDogFood: true, Power: power, SlashType: uint32(t), Operator: suite.operatorAddr, AVSAddr: avsAddr,
			SlashID: keeper.GetSlashIDForDogfood(t, infractionHeight), SlashEventHeight: infractionHeight,
			SlashProportion: sdkmath.LegacyNewDec(1),
		}
	}
	suite.NoError(suite.App.OperatorKeeper.Slash(suite.Ctx, mk(stakingtypes.Infraction_INFRACTION_DOWNTIME)))
	pool, err := suite.App.AssetsKeeper.GetOperatorSpecifiedAssetInfo(suite.Ctx, suite.operatorAddr, suite.assetID)
	suite.NoError(err)
	suite.True(pool.TotalAmount.IsZero(), "the first slash took the whole pool")
	suite.NotPanics(func() {
		// same path as the slashing module's BeginBlocker: dogfood -> operator SlashWithInfractionReason -> Slash
		suite.App.OperatorKeeper.SlashWithInfractionReason(suite.Ctx, suite.operatorAddr, infractionHeight, power,
			sdkmath.LegacyNewDecWithPrec(5, 2), stakingtypes.Infraction_INFRACTION_DOUBLE_SIGN)
	}, "REPLAY-CONFIRMED if it panics: slashing an operator whose value is zero divides by zero")
}
