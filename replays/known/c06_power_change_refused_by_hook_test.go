package keeper_test

// Replay of the failing obligation (x/dogfood/keeper.Keeper).ApplyValidatorChanges/C06.avc.agree/step:loop1.3:
// "a change that is NOT forwarded to the consensus engine leaves the stored validator set as it was". The solver's
// counterexample is the branch "known validator, new power >= 1, AfterValidatorCreated returns an error": the new power
// was written to the block's context - not to the cache context that is dropped on the error - so the stored set says
// power+7 while consensus was never told. Injected with `go test -overlay` (never written into /repo).

import (
	"errors"
	"reflect"
	"unsafe"

	keytypes "github.com/ExocoreNetwork/exocore/types/keys"
	sdk "github.com/cosmos/cosmos-sdk/types"
)

type verifRefusingHooks struct{}

func (verifRefusingHooks) AfterValidatorBonded(sdk.Context, sdk.ConsAddress, sdk.ValAddress) error {
	return nil
}

func (verifRefusingHooks) AfterValidatorRemoved(sdk.Context, sdk.ConsAddress, sdk.ValAddress) error {
	return nil
}

func (verifRefusingHooks) AfterValidatorCreated(sdk.Context, sdk.ValAddress) error {
	return errors.New("refused")
}

func (suite *KeeperTestSuite) TestVerifReplayPowerChangeRefusedByHook() {
	ctx := suite.Ctx
	k := suite.App.StakingKeeper // a copy: the app's own keeper keeps its hooks
	f := reflect.ValueOf(&k).Elem().FieldByName("dogfoodHooks")
	suite.Require().True(f.IsValid())
	reflect.NewAt(f.Type(), unsafe.Pointer(f.UnsafeAddr())).Elem().Set(reflect.ValueOf(verifRefusingHooks{}))

	vals := k.GetAllExocoreValidators(ctx)
	suite.Require().NotEmpty(vals)
	pk, err := vals[0].ConsPubKey()
	suite.Require().NoError(err)
	key := keytypes.NewWrappedConsKeyFromSdkKey(pk)
	before, found := k.GetExocoreValidator(ctx, key.ToConsAddr())
	suite.Require().True(found)

	told := k.ApplyValidatorChanges(ctx, []keytypes.WrappedConsKeyWithPower{{Key: key, Power: before.Power + 7}})
	after, found := k.GetExocoreValidator(ctx, key.ToConsAddr())
	suite.Require().True(found)
	if len(told) == 0 {
		suite.Equal(before.Power, after.Power,
			"REPLAY-CONFIRMED if not equal: consensus was told nothing, yet the stored power of %s went from %d to %d", key.ToConsAddr(), before.Power, after.Power)
	} else {
		suite.Equal(told[0].Power, after.Power)
	}
}
