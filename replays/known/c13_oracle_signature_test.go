package cosmos_test

// Replay of the failing obligation (app/ante/cosmos.SigVerificationDecorator).AnteHandle/C13.svd.signed: a price
// submission is admitted only if it is correctly signed by the key it names. The solver's counterexample is the path on
// which pubKey.VerifySignature returns false and the loop simply goes on. Injected with `go test -overlay` (never written
// into /repo).

import (
	"testing"

	exoante "github.com/ExocoreNetwork/exocore/app/ante/cosmos"
	oracletypes "github.com/ExocoreNetwork/exocore/x/oracle/types"
	"github.com/cosmos/cosmos-sdk/crypto/keys/ed25519"
	sdk "github.com/cosmos/cosmos-sdk/types"
	"github.com/cosmos/cosmos-sdk/types/module"
	"github.com/cosmos/cosmos-sdk/types/tx/signing"
	evmosencoding "github.com/evmos/evmos/v16/encoding"
)

func TestVerifReplayOracleSignature(t *testing.T) {
	encCfg := evmosencoding.MakeConfig(module.NewBasicManager())
	oracletypes.RegisterInterfaces(encCfg.InterfaceRegistry)
	priv := ed25519.GenPrivKey()
	creator := sdk.AccAddress(priv.PubKey().Address())
	msg := &oracletypes.MsgCreatePrice{Creator: creator.String(), FeederID: 1, BasedBlock: 1, Nonce: 1}
	txb := encCfg.TxConfig.NewTxBuilder()
	if err := txb.SetMsgs(msg); err != nil {
		t.Fatal(err)
	}
	sig := signing.SignatureV2{
		PubKey:   priv.PubKey(),
		Data:     &signing.SingleSignatureData{SignMode: signing.SignMode_SIGN_MODE_DIRECT, Signature: []byte("this is not a signature of the transaction")},
		Sequence: 0,
	}
	if err := txb.SetSignatures(sig); err != nil {
		t.Fatal(err)
	}
	dec := exoante.NewSigVerificationDecorator(nil, encCfg.TxConfig.SignModeHandler())
	ctx := sdk.Context{}.WithChainID("exocoretestnet_233-1")
	admitted := false
	_, err := dec.AnteHandle(ctx, txb.GetTx(), false, func(ctx sdk.Context, _ sdk.Tx, _ bool) (sdk.Context, error) {
		admitted = true
		return ctx, nil
	})
	if err == nil && admitted {
		t.Fatalf("REPLAY-CONFIRMED: a create-price transaction with an invalid signature passed SigVerificationDecorator (err=%v)", err)
	}
	t.Logf("rejected: %v", err)
}
