package types_test

// Replay of the failing obligation (x/delegation/types.GenesisState).ValidateUndelegations$1/C18.vu.accept: the
// exported genesis of a reachable state passes validation. The solver's counterexample is the path on which
// hex.DecodeString rejects the transaction hash: the keeper stores params.TxHash.String(), i.e. "0x" + 64 hex digits,
// and hex.DecodeString does not accept the "0x" prefix - every exported undelegation record is rejected. Injected with
// `go test -overlay` (never written into /repo).

import (
	"testing"

	sdkmath "cosmossdk.io/math"
	"github.com/ExocoreNetwork/exocore/x/delegation/types"
	"github.com/ethereum/go-ethereum/common"
)

func TestVerifReplayExportedUndelegationValidates(t *testing.T) {
	txHash := common.BytesToHash([]byte("some layer zero transaction"))
	gs := types.GenesisState{Undelegations: []types.UndelegationRecord{{
		StakerID:              "0x3e108c058e8066da635321dc3018294ca82ddedf_0x65",
		AssetID:               "0xdac17f958d2ee523a2206206994597c13d831ec7_0x65",
		OperatorAddr:          "exo18cggcpvwspnd5c6ny8wrqxpffj5zmhklprtnph",
		TxHash:                txHash.String(), // exactly what Keeper.UndelegateFrom stores
		IsPending:             true,
		BlockNumber:           10,
		CompleteBlockNumber:   20,
		LzTxNonce:             1,
		Amount:                sdkmath.NewInt(10),
		ActualCompletedAmount: sdkmath.NewInt(10),
	}}}
	if err := gs.ValidateUndelegations(); err != nil {
		t.Fatalf("REPLAY-CONFIRMED: an undelegation record as written by the keeper does not pass genesis validation: %v", err)
	}
}
