package keeper_test

// Replay of the failing obligation (x/dogfood/keeper.OperatorHooksWrapper).AfterOperatorKeyRemovalInitiated/
// C07.aokri.prevactive: a key removal is completed at once only if NEITHER the key being removed NOR the key the
// operator replaced earlier in this epoch is in the active validator set. The solver's counterexample: the removed key is
// not active and no look-up of the previous key happens on the path. History that produces it: an active validator
// replaces key A by B and opts out in the same epoch. B never was active, so the removal was completed at once and the
// operator's key record deleted - while A is still in the validator set (until the epoch ends) and must stay slashable
// for the unbonding period: the staking-keeper view used by the SDK slashing/evidence modules
// (ValidatorByConsAddr) no longer finds a validator for A, and the opt-out is not queued for the unbonding period.
// Injected with `go test -overlay` (never written into /repo).

import (
	utiltx "github.com/ExocoreNetwork/exocore/testutil/tx"
	avstypes "github.com/ExocoreNetwork/exocore/x/avs/types"
	operatortypes "github.com/ExocoreNetwork/exocore/x/operator/types"
	sdk "github.com/cosmos/cosmos-sdk/types"
)

func (suite *KeeperTestSuite) TestVerifReplayOptOutAfterReplacement() {
	chainID := avstypes.ChainIDWithoutRevision(suite.Ctx.ChainID())
	_, avsAddress := suite.App.AVSManagerKeeper.IsAVSByChainID(suite.Ctx, chainID)
	op := suite.Operators[0]
	found, keyA, err := suite.App.OperatorKeeper.GetOperatorConsKeyForChainID(suite.Ctx, op, chainID)
	suite.Require().NoError(err)
	suite.Require().True(found)
	_, isVal := suite.App.StakingKeeper.GetExocoreValidator(suite.Ctx, keyA.ToConsAddr())
	suite.Require().True(isVal, "key A is in the active validator set")
	_, okBefore := suite.App.OperatorKeeper.ValidatorByConsAddrForChainID(suite.Ctx, keyA.ToConsAddr(), chainID)
	suite.Require().True(okBefore)
	// same epoch: replace A by B, then opt out
	keyB := utiltx.GenerateConsensusKey()
	suite.Require().NoError(suite.App.OperatorKeeper.SetOperatorConsKeyForChainID(suite.Ctx, op, chainID, keyB))
	_, err = suite.OperatorMsgServer.OptOutOfAVS(sdk.WrapSDKContext(suite.Ctx), &operatortypes.OptOutOfAVSReq{FromAddress: op.String(), AvsAddress: avsAddress})
	suite.Require().NoError(err)
	// A is still validating (the set changes at the epoch end only)
	_, isVal = suite.App.StakingKeeper.GetExocoreValidator(suite.Ctx, keyA.ToConsAddr())
	suite.Require().True(isVal, "key A is still in the active validator set")
	_, okAfter := suite.App.OperatorKeeper.ValidatorByConsAddrForChainID(suite.Ctx, keyA.ToConsAddr(), chainID)
	suite.True(okAfter, "REPLAY-CONFIRMED if false: the validator behind the still active key A can no longer be found (slashing / evidence handling skip it)")
	suite.True(suite.App.StakingKeeper.GetOperatorOptOutFinishEpoch(suite.Ctx, op) > 0,
		"REPLAY-CONFIRMED if false: the opt-out of an operator that is still validating was not queued for the unbonding period")
}
