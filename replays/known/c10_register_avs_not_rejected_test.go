package avs_test

// Replay of the failing obligation (precompiles/avs.Precompile).RegisterAVS/C10.pavs.register.rejected: a caller that is
// not a listed owner is rejected, i.e. the method reports an error. The solver's counterexample is the path through
// `errorsmod.Wrap(err, "not qualified ...")` with err == nil at that point: Wrap(nil) is nil, the method returns
// (nil, nil) and Run hands the EVM an empty success instead of the `false` every other refusal produces.
// Injected with `go test -overlay` (never written into /repo).

import (
	"math/big"

	"github.com/ExocoreNetwork/exocore/app"
	"github.com/ExocoreNetwork/exocore/precompiles/avs"
	utiltx "github.com/ExocoreNetwork/exocore/testutil/tx"
	epochstypes "github.com/ExocoreNetwork/exocore/x/epochs/types"
	sdk "github.com/cosmos/cosmos-sdk/types"
	"github.com/ethereum/go-ethereum/common"
	ethtypes "github.com/ethereum/go-ethereum/core/types"
	"github.com/ethereum/go-ethereum/core/vm"
	evmtypes "github.com/evmos/evmos/v16/x/evm/types"
)

func (suite *AVSManagerPrecompileSuite) TestVerifReplayRegisterAVSByNonOwner() {
	// the caller (suite.Address) is NOT in the owner list
	owners := []string{sdk.AccAddress(utiltx.GenerateAddress().Bytes()).String(), sdk.AccAddress(utiltx.GenerateAddress().Bytes()).String()}
	input, err := suite.precompile.Pack(avs.MethodRegisterAVS, suite.Address, "avsTest", uint64(3),
		common.HexToAddress("0xDF907c29719154eb9872f021d21CAE6E5025d7aB"), common.HexToAddress("0xDF907c29719154eb9872f021d21CAE6E5025d7aB"),
		common.HexToAddress("0xDF907c29719154eb9872f021d21CAE6E5025d7aB"), owners, suite.AssetIDs, uint64(3), uint64(3), epochstypes.DayEpochID, []uint64{2, 3, 4, 4})
	suite.Require().NoError(err)
	caller := common.HexToAddress("0x3e108c058e8066DA635321Dc3018294cA82ddEdf")
	baseFee := suite.App.FeeMarketKeeper.GetBaseFee(suite.Ctx)
	contract := vm.NewPrecompile(vm.AccountRef(caller), suite.precompile, big.NewInt(0), uint64(1e6))
	contract.Input = input
	contractAddr := contract.Address()
	msgEthereumTx := evmtypes.NewTx(&evmtypes.EvmTxArgs{ChainID: suite.App.EvmKeeper.ChainID(), Nonce: 0, To: &contractAddr, GasLimit: 100000,
		GasPrice: app.MainnetMinGasPrices.BigInt(), GasFeeCap: baseFee, GasTipCap: big.NewInt(1), Accesses: &ethtypes.AccessList{}})
	msgEthereumTx.From = suite.Address.String()
	suite.Require().NoError(msgEthereumTx.Sign(suite.EthSigner, suite.Signer))
	cfg, err := suite.App.EvmKeeper.EVMConfig(suite.Ctx, suite.Ctx.BlockHeader().ProposerAddress, suite.App.EvmKeeper.ChainID())
	suite.Require().NoError(err)
	msg, err := msgEthereumTx.AsMessage(suite.EthSigner, baseFee)
	suite.Require().NoError(err)
	evm := suite.App.EvmKeeper.NewEVM(suite.Ctx, msg, cfg, nil, suite.StateDB)
	params := suite.App.EvmKeeper.GetParams(suite.Ctx)
	activePrecompiles := params.GetActivePrecompilesAddrs()
	precompileMap := suite.App.EvmKeeper.Precompiles(activePrecompiles...)
	suite.Require().NoError(vm.ValidatePrecompiles(precompileMap, activePrecompiles))
	evm.WithPrecompiles(precompileMap, activePrecompiles)

	bz, err := suite.precompile.Run(evm, contract, false)
	suite.Require().NoError(err)
	refused, err := suite.precompile.Methods[avs.MethodRegisterAVS].Outputs.Pack(false)
	suite.Require().NoError(err)
	suite.Equal(refused, bz, "REPLAY-CONFIRMED if different: a registration by a caller that is not a listed owner is not reported as refused (returned %x, expected the encoding of false)", bz)
	_, err = suite.App.AVSManagerKeeper.GetAVSInfo(suite.Ctx, caller.String())
	suite.Error(err, "nothing must have been registered")
}
