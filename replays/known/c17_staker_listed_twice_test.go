package keeper_test

// Replay of the failing obligation (x/feedistribution/keeper.Keeper).AllocateTokensToStakers/C17.ats.nopanic
// (DecCoins.Sub of more than is left) - equivalently the loop invariant "what is left is not negative".
// The solver's counterexample: the staker list holds the same staker more than once with a power map entry that is
// larger than some of the powers that were added to the total. History that produces it: an operator is opted into two
// AVSs, the first supporting asset X, the second supporting X and Y; one staker has delegated X and Y to it. The staker
// is listed once per (AVS, asset) pair - three times - the total power adds v1 + v2 + v2, but every listed occurrence is
// paid with the LAST value stored in the power map (v2 > v1): 3*v2/(v1+2*v2) > 100 % of the reward is handed out and
// `remaining.Sub` panics with a negative coin amount. AllocateTokens runs in the epoch hook of BeginBlock.
// Injected with `go test -overlay` (never written into /repo).

import (
	"fmt"
	"time"

	sdkmath "cosmossdk.io/math"
	assetskeeper "github.com/ExocoreNetwork/exocore/x/assets/keeper"
	assetstype "github.com/ExocoreNetwork/exocore/x/assets/types"
	avskeeper "github.com/ExocoreNetwork/exocore/x/avs/keeper"
	avstypes "github.com/ExocoreNetwork/exocore/x/avs/types"
	delegationtype "github.com/ExocoreNetwork/exocore/x/delegation/types"
	epochstypes "github.com/ExocoreNetwork/exocore/x/epochs/types"
	sdk "github.com/cosmos/cosmos-sdk/types"
	"github.com/ethereum/go-ethereum/common"
)

func (suite *OperatorTestSuite) TestVerifReplayStakerListedTwice() {
	suite.prepareOperator()
	usdt := common.HexToAddress("0xdAC17F958D2ee523a2206206994597C13D831ec7")
	suite.prepareDeposit(usdt, sdkmath.NewIntWithDecimal(200, 6))
	suite.prepareDelegation(true, usdt, sdkmath.NewIntWithDecimal(100, 6))
	usdtAssetID := suite.assetID
	// a second priced asset (the test genesis prices it as oracle token 2)
	usdc := common.HexToAddress("0xa0b86991c6218b36c1d19d4a2e9eb0ce3606eb48")
	suite.Require().NoError(suite.App.AssetsKeeper.SetStakingAssetInfo(suite.Ctx, &assetstype.StakingAssetInfo{
		AssetBasicInfo: assetstype.AssetInfo{Name: "USDC", Symbol: "USDC", Address: usdc.String(), Decimals: 6, LayerZeroChainID: suite.clientChainLzID, MetaInfo: "USDC"},
		StakingTotalAmount: sdkmath.NewInt(0),
	}))
	_, usdcAssetID := assetstype.GetStakerIDAndAssetID(suite.clientChainLzID, nil, usdc[:])
	suite.Require().NoError(suite.App.AssetsKeeper.PerformDepositOrWithdraw(suite.Ctx, &assetskeeper.DepositWithdrawParams{
		ClientChainLzID: suite.clientChainLzID, Action: assetstype.DepositLST, StakerAddress: suite.Address[:], OpAmount: sdkmath.NewIntWithDecimal(300, 6), AssetsAddress: usdc[:],
	}))
	suite.Require().NoError(suite.App.DelegationKeeper.DelegateTo(suite.Ctx, &delegationtype.DelegationOrUndelegationParams{
		ClientChainID: suite.clientChainLzID, AssetsAddress: usdc[:], OperatorAddress: suite.operatorAddr, StakerAddress: suite.Address[:],
		OpAmount: sdkmath.NewIntWithDecimal(300, 6), LzNonce: 1, TxHash: common.HexToHash("0x01"),
	}))
	// AVS 1 (suite.avsAddr, sorts first) supports USDT; AVS 2 (sorts last) supports USDT and USDC
	suite.prepareAvs([]string{usdtAssetID})
	avs2 := common.HexToAddress("0xffffffffffffffffffffffffffffffffffffff02").String()
	suite.Require().Less(suite.avsAddr, avs2)
	suite.Require().NoError(suite.App.AVSManagerKeeper.UpdateAVSInfo(suite.Ctx, &avstypes.AVSRegisterOrDeregisterParams{
		Action: avskeeper.RegisterAction, EpochIdentifier: epochstypes.HourEpochID, AvsAddress: avs2, AssetID: []string{usdtAssetID, usdcAssetID},
	}))
	suite.Require().NoError(suite.App.OperatorKeeper.OptIn(suite.Ctx, suite.operatorAddr, suite.avsAddr))
	suite.Require().NoError(suite.App.OperatorKeeper.OptIn(suite.Ctx, suite.operatorAddr, avs2))
	suite.CommitAfter(time.Hour*1 + time.Nanosecond)
	suite.CommitAfter(time.Hour*1 + time.Nanosecond)
	v1, err := suite.App.OperatorKeeper.CalculateUSDValueForStaker(suite.Ctx, suite.stakerID, suite.avsAddr, suite.operatorAddr)
	suite.Require().NoError(err)
	v2, err := suite.App.OperatorKeeper.CalculateUSDValueForStaker(suite.Ctx, suite.stakerID, avs2, suite.operatorAddr)
	suite.Require().NoError(err)
	suite.Require().True(v1.IsPositive() && v2.GT(v1), "the staker's value differs between the two AVSs (v1=%s v2=%s)", v1, v2)
	// what AllocateTokensToValidator hands to the stakers of this operator at a distribution epoch end
	reward := sdk.NewDecCoins(sdk.NewDecCoin("hua", sdkmath.NewInt(1000000)))
	feePool := suite.App.DistrKeeper.GetFeePool(suite.Ctx)
	poolBefore := feePool.CommunityPool
	outcome := ""
	func() {
		defer func() {
			if r := recover(); r != nil {
				outcome = fmt.Sprintf("panic: %v", r)
			}
		}()
		cc, _ := suite.Ctx.CacheContext()
		suite.App.DistrKeeper.AllocateTokensToStakers(cc, suite.operatorAddr, reward, feePool)
		booked := suite.App.DistrKeeper.GetStakerRewards(cc, suite.stakerID).Rewards.Add(feePool.CommunityPool.Sub(poolBefore)...)
		if !booked.IsEqual(reward) {
			outcome = fmt.Sprintf("booked %s for a reward of %s", booked, reward)
		}
	}()
	suite.Equal("", outcome, "REPLAY-CONFIRMED if not empty: allocating the stakers' reward of an operator that is opted into two AVSs: %s", outcome)
}
