package keeper_test

// Replay of the failing obligation (x/dogfood/keeper.DelegationHooksWrapper).AfterUndelegationStarted/C03.aus.queued:
// the epoch an undelegation is queued for is a real epoch (the hook never asks the store for the queue of epoch -1).
// The solver's counterexample: the operator is removing its key (IsOperatorRemovingKeyFromChainID) while
// GetOperatorOptOutFinishEpoch answers -1. History that produces it: an active validator opts out in epoch e; in the
// block whose BeginBlock closes epoch e+N the finish epoch is consumed (AfterEpochEnd deletes it and moves the opt-out to
// "pending"), but the key removal is only completed in that block's EndBlock. An undelegation delivered in that block
// is refused (store access with a nil key panics; the transaction is rolled back), although the request is within
// the staker's position (C03: accepted whatever the operator's opt-in or key state).
// Injected with `go test -overlay` (never written into /repo).

import (
	"fmt"

	sdkmath "cosmossdk.io/math"
	utiltx "github.com/ExocoreNetwork/exocore/testutil/tx"
	assetskeeper "github.com/ExocoreNetwork/exocore/x/assets/keeper"
	assetstypes "github.com/ExocoreNetwork/exocore/x/assets/types"
	avstypes "github.com/ExocoreNetwork/exocore/x/avs/types"
	delegationtypes "github.com/ExocoreNetwork/exocore/x/delegation/types"
	operatortypes "github.com/ExocoreNetwork/exocore/x/operator/types"
	sdk "github.com/cosmos/cosmos-sdk/types"
	"github.com/ethereum/go-ethereum/common"
)

func (suite *KeeperTestSuite) TestVerifReplayUndelegateInOptOutClosingBlock() {
	op := sdk.AccAddress(utiltx.GenerateAddress().Bytes())
	_, err := suite.OperatorMsgServer.RegisterOperator(sdk.WrapSDKContext(suite.Ctx), &operatortypes.RegisterOperatorReq{
		FromAddress: op.String(), Info: &operatortypes.OperatorInfo{EarningsAddr: op.String()},
	})
	suite.Require().NoError(err)
	staker := utiltx.GenerateAddress()
	lzID := suite.ClientChains[0].LayerZeroChainID
	assetAddr := common.HexToAddress(suite.Assets[0].Address)
	_, assetID := assetstypes.GetStakerIDAndAssetIDFromStr(lzID, staker.String(), suite.Assets[0].Address)
	asset, err := suite.App.AssetsKeeper.GetStakingAssetInfo(suite.Ctx, assetID)
	suite.Require().NoError(err)
	amountUSD := suite.App.StakingKeeper.GetMinSelfDelegation(suite.Ctx).Int64() * 5
	amount := sdkmath.NewIntWithDecimal(amountUSD, int(asset.AssetBasicInfo.Decimals))
	suite.Require().NoError(suite.App.AssetsKeeper.PerformDepositOrWithdraw(suite.Ctx, &assetskeeper.DepositWithdrawParams{
		ClientChainLzID: lzID, Action: assetstypes.DepositLST, StakerAddress: staker.Bytes(), AssetsAddress: assetAddr.Bytes(), OpAmount: amount,
	}))
	suite.Require().NoError(suite.App.DelegationKeeper.DelegateTo(suite.Ctx, &delegationtypes.DelegationOrUndelegationParams{
		ClientChainID: lzID, LzNonce: 5, AssetsAddress: assetAddr.Bytes(), StakerAddress: staker.Bytes(), OperatorAddress: op, OpAmount: amount,
	}))
	suite.Require().NoError(suite.App.DelegationKeeper.AssociateOperatorWithStaker(suite.Ctx, lzID, op, staker.Bytes()))
	chainID := avstypes.ChainIDWithoutRevision(suite.Ctx.ChainID())
	_, avsAddress := suite.App.AVSManagerKeeper.IsAVSByChainID(suite.Ctx, chainID)
	key := utiltx.GenerateConsensusKey()
	_, err = suite.OperatorMsgServer.OptIntoAVS(sdk.WrapSDKContext(suite.Ctx), &operatortypes.OptIntoAVSReq{
		FromAddress: op.String(), AvsAddress: avsAddress, PublicKeyJSON: key.ToJSON(),
	})
	suite.Require().NoError(err)
	suite.CheckLengthOfValidatorUpdates(1, []int64{amountUSD}, "opt in")
	// the active validator opts out
	_, err = suite.OperatorMsgServer.OptOutOfAVS(sdk.WrapSDKContext(suite.Ctx), &operatortypes.OptOutOfAVSReq{FromAddress: op.String(), AvsAddress: avsAddress})
	suite.Require().NoError(err)
	suite.Require().True(suite.App.StakingKeeper.GetOperatorOptOutFinishEpoch(suite.Ctx, op) > 0, "opt-out is queued")
	// move on, one epoch at a time, until we stand in the block whose BeginBlock has closed the finish epoch: the
	// opt-out is "pending" and will be completed by this block's EndBlock
	found := false
	for i := 0; i < 12 && !found; i++ {
		suite.CommitAfter(suite.EpochDuration)
		for _, a := range suite.App.StakingKeeper.GetPendingOptOuts(suite.Ctx).List {
			if sdk.AccAddress(a).Equals(op) {
				found = true
			}
		}
	}
	suite.Require().True(found, "reached the block that completes the opt-out")
	suite.Require().True(suite.App.OperatorKeeper.IsOperatorRemovingKeyFromChainID(suite.Ctx, op, chainID))
	// a transaction of that block: undelegate a fifth of the position
	refused := ""
	func() {
		defer func() {
			if r := recover(); r != nil {
				refused = fmt.Sprintf("panic: %v", r)
			}
		}()
		cc, _ := suite.Ctx.CacheContext() // what runTx does: a panic or error discards the transaction's writes
		if err := suite.App.DelegationKeeper.UndelegateFrom(cc, &delegationtypes.DelegationOrUndelegationParams{
			ClientChainID: lzID, LzNonce: 6, AssetsAddress: assetAddr.Bytes(), StakerAddress: staker.Bytes(), OperatorAddress: op,
			OpAmount: amount.Quo(sdkmath.NewInt(5)), TxHash: common.BytesToHash([]byte("txhash-closing-block")),
		}); err != nil {
			refused = "error: " + err.Error()
		}
	}()
	suite.Equal("", refused,
		"REPLAY-CONFIRMED if not empty: an undelegation of 1/5 of the staker's position, delivered in the block that completes the operator's opt-out, is refused (%s)", refused)
}
