package keeper_test

// Replay of the failing obligation (x/dogfood/keeper.OperatorHooksWrapper).AfterOperatorKeyRemovalInitiated/
// C07.aokri.agree: the reverse lookup of a consensus key may be dropped only together with the operator's forward
// entry. The solver's counterexample is the branch "key not in the active validator set": the hook deletes the reverse
// lookup while the forward entries (and the removal marker) stay. History used here: an operator opts in with key K and
// opts out again before the epoch ends. Injected with `go test -overlay` (never written into /repo).

import (
	sdkmath "cosmossdk.io/math"

	utiltx "github.com/ExocoreNetwork/exocore/testutil/tx"
	assetskeeper "github.com/ExocoreNetwork/exocore/x/assets/keeper"
	assetstypes "github.com/ExocoreNetwork/exocore/x/assets/types"
	avstypes "github.com/ExocoreNetwork/exocore/x/avs/types"
	delegationtypes "github.com/ExocoreNetwork/exocore/x/delegation/types"
	operatortypes "github.com/ExocoreNetwork/exocore/x/operator/types"
	sdk "github.com/cosmos/cosmos-sdk/types"
	"github.com/ethereum/go-ethereum/common"
)

func (suite *KeeperTestSuite) TestVerifReplayOptOutBeforeActive() {
	ctx := suite.Ctx
	chainID := avstypes.ChainIDWithoutRevision(ctx.ChainID())
	_, avsAddress := suite.App.AVSManagerKeeper.IsAVSByChainID(ctx, chainID)
	newOperator := func(nonce uint64) sdk.AccAddress {
		op := sdk.AccAddress(utiltx.GenerateAddress().Bytes())
		_, err := suite.OperatorMsgServer.RegisterOperator(sdk.WrapSDKContext(ctx), &operatortypes.RegisterOperatorReq{
			FromAddress: op.String(), Info: &operatortypes.OperatorInfo{EarningsAddr: op.String()},
		})
		suite.Require().NoError(err)
		staker := utiltx.GenerateAddress()
		lzID := suite.ClientChains[0].LayerZeroChainID
		assetAddr := common.HexToAddress(suite.Assets[0].Address)
		_, assetID := assetstypes.GetStakerIDAndAssetIDFromStr(lzID, staker.String(), suite.Assets[0].Address)
		asset, err := suite.App.AssetsKeeper.GetStakingAssetInfo(ctx, assetID)
		suite.Require().NoError(err)
		amount := sdkmath.NewIntWithDecimal(suite.App.StakingKeeper.GetMinSelfDelegation(ctx).Int64()+1, int(asset.AssetBasicInfo.Decimals))
		suite.Require().NoError(suite.App.AssetsKeeper.PerformDepositOrWithdraw(ctx, &assetskeeper.DepositWithdrawParams{
			ClientChainLzID: lzID, Action: assetstypes.DepositLST, StakerAddress: staker.Bytes(), AssetsAddress: assetAddr.Bytes(), OpAmount: amount,
		}))
		suite.Require().NoError(suite.App.DelegationKeeper.DelegateTo(ctx, &delegationtypes.DelegationOrUndelegationParams{
			ClientChainID: lzID, LzNonce: nonce, AssetsAddress: assetAddr.Bytes(), StakerAddress: staker.Bytes(), OperatorAddress: op, OpAmount: amount,
		}))
		suite.Require().NoError(suite.App.DelegationKeeper.AssociateOperatorWithStaker(ctx, lzID, op, staker.Bytes()))
		return op
	}
	opA, opB := newOperator(11), newOperator(12)
	key := utiltx.GenerateConsensusKey()
	_, err := suite.OperatorMsgServer.OptIntoAVS(sdk.WrapSDKContext(ctx), &operatortypes.OptIntoAVSReq{
		FromAddress: opA.String(), AvsAddress: avsAddress, PublicKeyJSON: key.ToJSON(),
	})
	suite.Require().NoError(err)
	// same epoch: A changes its mind
	_, err = suite.OperatorMsgServer.OptOutOfAVS(sdk.WrapSDKContext(ctx), &operatortypes.OptOutOfAVSReq{FromAddress: opA.String(), AvsAddress: avsAddress})
	suite.Require().NoError(err)
	fwd, fwdKey, err := suite.App.OperatorKeeper.GetOperatorConsKeyForChainID(ctx, opA, chainID)
	suite.Require().NoError(err)
	rev, revOp := suite.App.OperatorKeeper.GetOperatorAddressForChainIDAndConsAddr(ctx, chainID, key.ToConsAddr())
	if fwd {
		suite.True(rev && revOp.Equals(opA),
			"REPLAY-CONFIRMED if false: operator A still holds key %s in the forward index but the key no longer resolves to it (found=%v)", fwdKey.ToConsAddr(), rev)
	}
	// another operator can now take the very same key while A still holds it
	_, err = suite.OperatorMsgServer.OptIntoAVS(sdk.WrapSDKContext(ctx), &operatortypes.OptIntoAVSReq{
		FromAddress: opB.String(), AvsAddress: avsAddress, PublicKeyJSON: key.ToJSON(),
	})
	fwdA, keyA, _ := suite.App.OperatorKeeper.GetOperatorConsKeyForChainID(ctx, opA, chainID)
	fwdB, keyB, _ := suite.App.OperatorKeeper.GetOperatorConsKeyForChainID(ctx, opB, chainID)
	suite.False(err == nil && fwdA && fwdB && keyA.ToConsAddr().Equals(keyB.ToConsAddr()),
		"REPLAY-CONFIRMED if false: operators A and B both hold consensus key %s", key.ToConsAddr())
}
