package oracle_test

import (
	reflect "reflect"
	"testing"

	cosmosante "github.com/ExocoreNetwork/exocore/app/ante/cosmos"
	keepertest "github.com/ExocoreNetwork/exocore/testutil/keeper"
	dogfoodkeeper "github.com/ExocoreNetwork/exocore/x/dogfood/keeper"
	dogfoodtypes "github.com/ExocoreNetwork/exocore/x/dogfood/types"
	"github.com/ExocoreNetwork/exocore/x/oracle"
	"github.com/ExocoreNetwork/exocore/x/oracle/keeper"
	"github.com/ExocoreNetwork/exocore/x/oracle/types"
	"github.com/agiledragon/gomonkey/v2"
	abci "github.com/cometbft/cometbft/abci/types"
	"github.com/cosmos/cosmos-sdk/codec"
	codectypes "github.com/cosmos/cosmos-sdk/codec/types"
	cryptocodec "github.com/cosmos/cosmos-sdk/crypto/codec"
	"github.com/cosmos/cosmos-sdk/testutil/mock"
	sdk "github.com/cosmos/cosmos-sdk/types"
	"github.com/stretchr/testify/assert"
	"github.com/stretchr/testify/require"
)

// Replay of the failing obligation (x/oracle.AppModule).EndBlock/C13.eb.leavers: when the validator set changes, the
// nonces of the sealed rounds are removed for the validators that were in the set BEFORE the change as well. The
// solver's counterexample: the list handed to RemoveNonceWithFeederIDForValidators is the list read after
// SetValidatorPowers. History: validator v3 leaves while a round is open; its nonce record (value 0 of 3) survives, and it
// can still get MaxNonce fee-less, top-priority create-price transactions admitted although it is no validator any more.
// Injected with `go test -overlay` (never written into /repo).

// createPriceTx is the smallest sdk.Tx the oracle branch of the ante decorators looks at.
type createPriceTx struct{ msgs []sdk.Msg }

func (tx createPriceTx) GetMsgs() []sdk.Msg   { return tx.msgs }
func (tx createPriceTx) ValidateBasic() error { return nil }

func TestVerifReplayFormerValidatorKeepsNonces(t *testing.T) {
	keeper.ResetAggregatorContext()
	keeper.ResetCache()
	defer func() {
		keeper.ResetAggregatorContext()
		keeper.ResetCache()
	}()

	// default params, feeder 1: StartBaseBlock 1, Interval 10, MaxNonce 3
	k, ctx := keepertest.OracleKeeper(t)
	am := oracle.NewAppModule(codec.NewProtoCodec(codectypes.NewInterfaceRegistry()), *k, nil, nil)

	// three validators with voting power 1 each
	var exoVals []dogfoodtypes.ExocoreValidator
	var creators, consAddrs [3]string
	var updateV3Leaves []abci.ValidatorUpdate
	for i := 0; i < 3; i++ {
		tmPk, err := mock.NewPV().GetPubKey()
		require.NoError(t, err)
		exoVals = append(exoVals, dogfoodtypes.ExocoreValidator{Address: tmPk.Address().Bytes(), Power: 1})
		creators[i] = sdk.AccAddress(tmPk.Address()).String()
		consAddrs[i] = sdk.ConsAddress(tmPk.Address()).String()
		if i == 2 {
			sdkPk, err := cryptocodec.FromTmPubKeyInterface(tmPk)
			require.NoError(t, err)
			protoPk, err := cryptocodec.ToTmProtoPublicKey(sdkPk)
			require.NoError(t, err)
			updateV3Leaves = []abci.ValidatorUpdate{{PubKey: protoPk, Power: 0}}
		}
	}
	var pendingUpdates []abci.ValidatorUpdate
	patches := gomonkey.ApplyMethod(reflect.TypeOf(dogfoodkeeper.Keeper{}), "GetAllExocoreValidators", func(dogfoodkeeper.Keeper, sdk.Context) []dogfoodtypes.ExocoreValidator {
		return exoVals
	})
	patches.ApplyMethod(reflect.TypeOf(dogfoodkeeper.Keeper{}), "GetValidatorUpdates", func(dogfoodkeeper.Keeper, sdk.Context) []abci.ValidatorUpdate {
		return pendingUpdates
	})
	defer patches.Reset()

	// blocks 2..11: the round with base block 11 opens in EndBlock(11); all three validators get nonce 0 for feeder 1
	for h := int64(2); h <= 11; h++ {
		am.EndBlock(ctx.WithBlockHeight(h), abci.RequestEndBlock{Height: h})
	}
	_, had := k.GetNonce(ctx, consAddrs[2])
	require.True(t, had, "v3 holds a nonce record for the open round")
	// block 12: v3 leaves the validator set while the round is open (the change seals the round)
	pendingUpdates = updateV3Leaves
	am.EndBlock(ctx.WithBlockHeight(12), abci.RequestEndBlock{Height: 12})
	pendingUpdates = nil
	ctx = ctx.WithBlockHeight(13)
	agc := keeper.GetAggregatorContext(ctx, *k)
	require.Len(t, agc.GetValidators(), 2, "v3 is not a validator any more")
	require.NotContains(t, agc.GetValidators(), consAddrs[2])

	incSeq := cosmosante.NewIncrementSequenceDecorator(nil, *k)
	next := func(ctx sdk.Context, _ sdk.Tx, _ bool) (sdk.Context, error) { return ctx, nil }
	submit := func(creator string, nonce int32) error {
		tx := createPriceTx{msgs: []sdk.Msg{&types.MsgCreatePrice{
			Creator: creator, FeederID: 1, BasedBlock: 11, Nonce: nonce,
			Prices: []*types.PriceSource{{SourceID: 1, Prices: []*types.PriceTimeDetID{{Price: "100", Decimal: 18, Timestamp: "2024-05-01 01:01:01", DetID: "1"}}}},
		}}}
		_, err := incSeq.AnteHandle(ctx, tx, false, next)
		return err
	}
	// the former validator must not get a single fee-less transaction admitted any more
	_, found := k.GetNonce(ctx, consAddrs[2])
	assert.False(t, found, "REPLAY-CONFIRMED if true: former validator v3 still holds a nonce record")
	admitted := 0
	for nonce := int32(1); nonce <= 3; nonce++ {
		if submit(creators[2], nonce) == nil {
			admitted++
		}
	}
	assert.Equal(t, 0, admitted, "REPLAY-CONFIRMED if not 0: %d fee-less create-price transactions of former validator v3 were admitted by the ante handler", admitted)
}
