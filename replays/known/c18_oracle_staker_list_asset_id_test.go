package oracle_test

import (
	"testing"

	keepertest "github.com/ExocoreNetwork/exocore/testutil/keeper"
	"github.com/ExocoreNetwork/exocore/x/oracle"
	"github.com/ExocoreNetwork/exocore/x/oracle/keeper"
	"github.com/ExocoreNetwork/exocore/x/oracle/types"
	"github.com/stretchr/testify/assert"
	"github.com/stretchr/testify/require"
)

// Replay of the failing obligation (x/oracle/keeper.Keeper).GetAllStakerListAssets/C18.gasla.relative (the exported asset
// id of a staker list is the key RELATIVE to the collection's prefix). The accessor iterates the raw module store with
// the collection's prefix and exports the whole key as the asset id. History: one native-restaking staker is recorded
// for asset "0xe_0x65" (staker list and staker info, as a deposit does). The exported genesis names the list's asset
// "NativeToken/stakerList/value/0xe_0x65": validation of the exported document fails, and importing it anyway restores
// the list under a doubled prefix - the restarted chain has no staker list for the asset.
// Injected with `go test -overlay` (never written into /repo).

func TestVerifReplayStakerListAssetIDRoundTrip(t *testing.T) {
	keeper.ResetAggregatorContext()
	keeper.ResetCache()
	k, ctx := keepertest.OracleKeeper(t)
	const assetID = "0xe_0x65"
	const staker = "0x0000000000000000000000000000000000000001"
	k.SetStakerList(ctx, assetID, &types.StakerList{StakerAddrs: []string{staker}})
	k.SetStakerInfos(ctx, assetID, []*types.StakerInfo{types.NewStakerInfo(staker, "0xpubkey")})
	require.Equal(t, []string{staker}, k.GetStakerList(ctx, assetID).StakerAddrs)

	exported := oracle.ExportGenesis(ctx, *k)
	require.Len(t, exported.StakerListAssets, 1)
	assert.Equal(t, assetID, exported.StakerListAssets[0].AssetId,
		"REPLAY-CONFIRMED if different: the exported staker list is attributed to asset %q", exported.StakerListAssets[0].AssetId)
	assert.NoError(t, exported.Validate(), "REPLAY-CONFIRMED if error: the genesis exported from a chain with a native-restaking staker does not validate")

	k2, ctx2 := keepertest.OracleKeeper(t)
	oracle.InitGenesis(ctx2, *k2, *exported)
	assert.Equal(t, []string{staker}, k2.GetStakerList(ctx2, assetID).StakerAddrs,
		"REPLAY-CONFIRMED if different: the restarted chain has no staker list for asset %s", assetID)
}
