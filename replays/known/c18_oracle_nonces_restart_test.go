package oracle_test

import (
	reflect "reflect"
	"testing"

	cosmosante "github.com/ExocoreNetwork/exocore/app/ante/cosmos"
	keepertest "github.com/ExocoreNetwork/exocore/testutil/keeper"
	dogfoodkeeper "github.com/ExocoreNetwork/exocore/x/dogfood/keeper"
	dogfoodtypes "github.com/ExocoreNetwork/exocore/x/dogfood/types"
	"github.com/ExocoreNetwork/exocore/x/oracle"
	"github.com/ExocoreNetwork/exocore/x/oracle/keeper"
	"github.com/ExocoreNetwork/exocore/x/oracle/types"
	"github.com/agiledragon/gomonkey/v2"
	abci "github.com/cometbft/cometbft/abci/types"
	"github.com/cosmos/cosmos-sdk/codec"
	codectypes "github.com/cosmos/cosmos-sdk/codec/types"
	"github.com/cosmos/cosmos-sdk/testutil/mock"
	sdk "github.com/cosmos/cosmos-sdk/types"
	"github.com/stretchr/testify/assert"
	"github.com/stretchr/testify/require"
)

// Replay of the failing obligation x/oracle.ExportGenesis/C18.oxg.nonces: the exported document holds every collection of
// the module's store. The validators' nonce records ("KeyNonce/value/") are in no field of the genesis state. History: a
// round opens in EndBlock(11) - every validator gets its nonce record for the feeder -, the chain is exported in the
// middle of the submission window (block 12) and a fresh keeper is initialised from the document: on the restarted
// chain no validator has a nonce record, so the ante handler refuses every fee-less price submission for the open
// round, which the original chain admits. Injected with `go test -overlay` (never written into /repo).

type verifC18CreatePriceTx struct{ msgs []sdk.Msg }

func (tx verifC18CreatePriceTx) GetMsgs() []sdk.Msg   { return tx.msgs }
func (tx verifC18CreatePriceTx) ValidateBasic() error { return nil }

func TestVerifReplayOracleNoncesSurviveRestart(t *testing.T) {
	keeper.ResetAggregatorContext()
	keeper.ResetCache()
	defer func() {
		keeper.ResetAggregatorContext()
		keeper.ResetCache()
	}()

	// default params, feeder 1: StartBaseBlock 1, Interval 10, MaxNonce 3
	k, ctx := keepertest.OracleKeeper(t)
	am := oracle.NewAppModule(codec.NewProtoCodec(codectypes.NewInterfaceRegistry()), *k, nil, nil)
	var exoVals []dogfoodtypes.ExocoreValidator
	var creators, consAddrs [2]string
	for i := range creators {
		tmPk, err := mock.NewPV().GetPubKey()
		require.NoError(t, err)
		exoVals = append(exoVals, dogfoodtypes.ExocoreValidator{Address: tmPk.Address().Bytes(), Power: 1})
		creators[i] = sdk.AccAddress(tmPk.Address()).String()
		consAddrs[i] = sdk.ConsAddress(tmPk.Address()).String()
	}
	patches := gomonkey.ApplyMethod(reflect.TypeOf(dogfoodkeeper.Keeper{}), "GetAllExocoreValidators", func(dogfoodkeeper.Keeper, sdk.Context) []dogfoodtypes.ExocoreValidator {
		return exoVals
	})
	patches.ApplyMethod(reflect.TypeOf(dogfoodkeeper.Keeper{}), "GetValidatorUpdates", func(dogfoodkeeper.Keeper, sdk.Context) []abci.ValidatorUpdate {
		return nil
	})
	defer patches.Reset()

	for h := int64(2); h <= 11; h++ {
		am.EndBlock(ctx.WithBlockHeight(h), abci.RequestEndBlock{Height: h})
	}
	ctx = ctx.WithBlockHeight(12)
	submit := func(kk *keeper.Keeper, c sdk.Context, creator string, nonce int32) error {
		incSeq := cosmosante.NewIncrementSequenceDecorator(nil, *kk)
		next := func(ctx sdk.Context, _ sdk.Tx, _ bool) (sdk.Context, error) { return ctx, nil }
		tx := verifC18CreatePriceTx{msgs: []sdk.Msg{&types.MsgCreatePrice{
			Creator: creator, FeederID: 1, BasedBlock: 11, Nonce: nonce,
			Prices: []*types.PriceSource{{SourceID: 1, Prices: []*types.PriceTimeDetID{{Price: "100", Decimal: 18, Timestamp: "2024-05-01 01:01:01", DetID: "1"}}}},
		}}}
		_, err := incSeq.AnteHandle(c, tx, false, next)
		return err
	}
	_, had := k.GetNonce(ctx, consAddrs[0])
	require.True(t, had, "original chain: v1 holds a nonce record for the open round")

	// export in the middle of the window, restart
	exported := oracle.ExportGenesis(ctx, *k)
	require.NoError(t, exported.Validate())
	k2, ctx2 := keepertest.OracleKeeper(t)
	ctx2 = ctx2.WithBlockHeight(12)
	oracle.InitGenesis(ctx2, *k2, *exported)

	_, has := k2.GetNonce(ctx2, consAddrs[0])
	assert.True(t, has, "REPLAY-CONFIRMED if false: after export and restart validator v1 has no nonce record for the open round")
	// original chain: the submission is admitted
	require.NoError(t, submit(k, ctx, creators[0], 1), "original chain admits v1's first submission for the open round")
	assert.NoError(t, submit(k2, ctx2, creators[0], 1), "REPLAY-CONFIRMED if error: the restarted chain refuses the submission the original chain admits")
}
