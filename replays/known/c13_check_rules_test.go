package types_test

// Replay of the failing obligations (x/oracle/types.Params).CheckRules/C13.cr.listed/inv-preserve:loop3 and
// /C13.cr.all/inv-preserve:loop1: a submission is counted only if its sources match the feeder's rule. The solver's
// counterexample is a path on which the inner search for one source is exhausted and the outer loop continues: only the
// last source of the rule decides. Injected with `go test -overlay` (never written into /repo).

import (
	"testing"

	"github.com/ExocoreNetwork/exocore/x/oracle/types"
)

func verifReplayParams(ruleIDs []uint64) types.Params {
	return types.Params{
		Sources:      []*types.Source{{}, {Name: "s1", Valid: true}, {Name: "s2", Valid: true}, {Name: "s3", Valid: true}},
		Rules:        []*types.RuleSource{{}, {SourceIDs: ruleIDs}},
		TokenFeeders: []*types.TokenFeeder{{}, {TokenID: 1, RuleID: 1}},
	}
}

// rule lists sources 1 and 2; the submission reports sources 2 and 3 (source 1 is missing)
func TestVerifReplayCheckRulesListed(t *testing.T) {
	p := verifReplayParams([]uint64{1, 2})
	ok, err := p.CheckRules(1, []*types.PriceSource{{SourceID: 2}, {SourceID: 3}})
	if ok {
		t.Fatalf("REPLAY-CONFIRMED: CheckRules accepted a submission without the listed source 1 (ok=%v err=%v)", ok, err)
	}
}

// rule "all valid sources" (first id 0) with valid sources 1,2,3; the submission reports source 3 only
func TestVerifReplayCheckRulesAll(t *testing.T) {
	p := verifReplayParams([]uint64{0})
	ok, err := p.CheckRules(1, []*types.PriceSource{{SourceID: 3}})
	if ok {
		t.Fatalf("REPLAY-CONFIRMED: CheckRules accepted a submission without the valid sources 1 and 2 (ok=%v err=%v)", ok, err)
	}
}
