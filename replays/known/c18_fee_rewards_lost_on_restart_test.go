package keeper_test

// Replay of the failing obligation (x/feedistribution/keeper.Keeper).ExportGenesis/C18.fxg.pool (and .commission,
// .outstanding, .stakers): the exported document holds every collection of the module's store. The genesis state of
// x/feedistribution has a single field, the parameters: the community pool, the validators' accumulated commissions and
// outstanding rewards and the stakers' outstanding rewards - every claim on the coins the module account holds - are in
// no field. History: fees of one distribution epoch are allocated, the chain is exported and restarted: the booked
// claims are all zero on the restarted chain. (Export/restart scaffolding as in c18_operator_commission_time_test.go.)
// Injected with `go test -overlay` (never written into /repo).

import (
	"encoding/json"

	sdkmath "cosmossdk.io/math"
	exocoreapp "github.com/ExocoreNetwork/exocore/app"
	"github.com/ExocoreNetwork/exocore/utils"
	assetstypes "github.com/ExocoreNetwork/exocore/x/assets/types"
	avstypes "github.com/ExocoreNetwork/exocore/x/avs/types"
	delegationtypes "github.com/ExocoreNetwork/exocore/x/delegation/types"
	dogfoodtypes "github.com/ExocoreNetwork/exocore/x/dogfood/types"
	epochstypes "github.com/ExocoreNetwork/exocore/x/epochs/types"
	distrtypes "github.com/ExocoreNetwork/exocore/x/feedistribution/types"
	operatortypes "github.com/ExocoreNetwork/exocore/x/operator/types"
	oracletypes "github.com/ExocoreNetwork/exocore/x/oracle/types"
	abci "github.com/cometbft/cometbft/abci/types"
	"github.com/cosmos/cosmos-sdk/codec"
	pruningtypes "github.com/cosmos/cosmos-sdk/store/pruning/types"
	sdk "github.com/cosmos/cosmos-sdk/types"
	"github.com/cosmos/cosmos-sdk/types/module"
	"github.com/ethereum/go-ethereum/common"
	evmosutils "github.com/evmos/evmos/v16/utils"
)

// verifC18dModules are the modules whose exported genesis is carried over to the restarted chain.
var verifC18dModules = []string{
	epochstypes.ModuleName,
	assetstypes.ModuleName,
	operatortypes.ModuleName,
	delegationtypes.ModuleName,
	dogfoodtypes.ModuleName,
	oracletypes.ModuleName,
	distrtypes.ModuleName,
}

// verifC18dExport exports the committed state of the running chain (app/export.go) for the modules
// above, and returns the exported document, split per module.
func (suite *KeeperTestSuite) verifC18dExport(app *exocoreapp.ExocoreApp) (map[string]json.RawMessage, int64) {
	exported, err := app.ExportAppStateAndValidators(false, nil, verifC18dModules)
	suite.Require().NoError(err)
	var perModule map[string]json.RawMessage
	suite.Require().NoError(json.Unmarshal(exported.AppState, &perModule))
	suite.Require().Len(perModule, len(verifC18dModules))
	return perModule, exported.Height
}

// verifC18dRestart initialises a fresh chain from the exported document. It returns the new app and a
// context in the middle of the first block of the restarted chain (BeginBlock done), which is the
// same position in which suite.Ctx is for the original chain.
func (suite *KeeperTestSuite) verifC18dRestart(
	exported map[string]json.RawMessage, height int64,
) (*exocoreapp.ExocoreApp, sdk.Context) {
	pruneOpts := pruningtypes.NewPruningOptionsFromString(pruningtypes.PruningOptionDefault)
	appI, genesisState := exocoreapp.SetupTestingApp(utils.DefaultChainID, &pruneOpts, false)()
	app, ok := appI.(*exocoreapp.ExocoreApp)
	suite.Require().True(ok)
	for name, bz := range exported {
		genesisState[name] = bz
	}
	// stateless validation of the exported sections, as `exocored validate-genesis` would do.
	// (x/assets is skipped: the asset address of the test fixture is in checksum case, which
	// the validation of x/assets rejects even for the genesis the suite itself starts from.)
	for name, bz := range exported {
		if name == assetstypes.ModuleName {
			continue
		}
		basics, ok := exocoreapp.ModuleBasics[name].(module.HasGenesisBasics)
		suite.Require().True(ok, name)
		suite.Require().NoError(basics.ValidateGenesis(app.AppCodec(), app.GetTxConfig(), bz), name)
	}
	stateBytes, err := json.MarshalIndent(genesisState, "", " ")
	suite.Require().NoError(err)
	// the header of the block the original chain is currently in
	header := suite.Ctx.BlockHeader()
	suite.Require().Equal(height, header.Height)
	app.InitChain(
		abci.RequestInitChain{
			Time:            header.Time,
			ChainId:         utils.DefaultChainID,
			InitialHeight:   height,
			Validators:      []abci.ValidatorUpdate{},
			ConsensusParams: exocoreapp.DefaultConsensusParams,
			AppStateBytes:   stateBytes,
		},
	)
	// exporting the freshly initialised chain again yields the same document
	// (x/operator is left out: on the unchanged tree its InitGenesis resets the update time of
	// every commission to the block time, which is unrelated to this demonstration)
	initCtx := app.BaseApp.NewContext(false, header)
	reExported := map[string]codec.ProtoMarshaler{
		epochstypes.ModuleName:     app.EpochsKeeper.ExportGenesis(initCtx),
		assetstypes.ModuleName:     app.AssetsKeeper.ExportGenesis(initCtx),
		delegationtypes.ModuleName: app.DelegationKeeper.ExportGenesis(initCtx),
		dogfoodtypes.ModuleName:    app.StakingKeeper.ExportGenesis(initCtx),
	}
	for name, gs := range reExported {
		suite.Require().JSONEq(
			string(exported[name]), string(app.AppCodec().MustMarshalJSON(gs)), name,
		)
	}
	app.BeginBlock(abci.RequestBeginBlock{Header: header})
	return app, app.BaseApp.NewContext(false, header)
}



func (suite *KeeperTestSuite) TestVerifReplayBookedRewardsSurviveRestart() {
	totalPower := suite.App.StakingKeeper.GetLastTotalPower(suite.Ctx).Int64()
	suite.Require().Positive(totalPower)
	income := sdk.NewCoins(sdk.NewCoin(evmosutils.BaseDenom, sdkmath.NewInt(1_000_000)))
	suite.Require().NoError(suite.App.ExomintKeeper.MintCoins(suite.Ctx, income))
	suite.Require().NoError(suite.App.ExomintKeeper.AddCollectedFees(suite.Ctx, income))
	suite.Require().NoError(suite.App.DistrKeeper.AllocateTokens(suite.Ctx, totalPower))
	suite.Commit()
	pool := suite.App.DistrKeeper.GetFeePool(suite.Ctx).CommunityPool
	suite.Require().False(pool.IsZero(), "original chain: the community pool holds its share of the fees")
	count := func(app *exocoreapp.ExocoreApp, ctx sdk.Context, pfx []byte) int {
		it := sdk.KVStorePrefixIterator(ctx.KVStore(app.GetKey(distrtypes.StoreKey)), pfx)
		defer it.Close()
		n := 0
		for ; it.Valid(); it.Next() {
			n++
		}
		return n
	}
	stakersBefore := count(suite.App, suite.Ctx, distrtypes.StakerOutstandingRewardsPrefix)
	commissionsBefore := count(suite.App, suite.Ctx, distrtypes.ValidatorAccumulatedCommissionPrefix)
	suite.Require().Positive(stakersBefore + commissionsBefore)

	exported, height := suite.verifC18dExport(suite.App)
	newApp, newCtx := suite.verifC18dRestart(exported, height)
	poolAfter := newApp.DistrKeeper.GetFeePool(newCtx).CommunityPool
	suite.True(pool.IsEqual(poolAfter),
		"REPLAY-CONFIRMED if false: community pool %s before export, %s after restart", pool, poolAfter)
	stakersAfter := count(newApp, newCtx, distrtypes.StakerOutstandingRewardsPrefix)
	commissionsAfter := count(newApp, newCtx, distrtypes.ValidatorAccumulatedCommissionPrefix)
	suite.Equal(stakersBefore, stakersAfter, "REPLAY-CONFIRMED if different: %d stakers had outstanding rewards before export, %d after restart", stakersBefore, stakersAfter)
	suite.Equal(commissionsBefore, commissionsAfter, "REPLAY-CONFIRMED if different: %d validators had accumulated commission before export, %d after restart", commissionsBefore, commissionsAfter)
	_ = avstypes.ModuleName
	_ = common.Address{}
}
