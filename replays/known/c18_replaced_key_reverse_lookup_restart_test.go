package keeper_test

// Replay of the failing obligations (*x/operator/keeper.Keeper).SetAllPrevConsKeys/C18.sapck.reverse (a previous key
// restored from genesis resolves to its operator again) and (x/operator/keeper.Keeper).ExportGenesis/C18.oeg.reverse (the
// chain -> consensus address -> operator index is part of the exported document). History: an active validator
// replaces key A by key B. On the running chain A keeps resolving to the operator - so that it can be slashed - until the
// unbonding epochs after the replacement have ended. The chain is exported and restarted (1) in the epoch of the
// replacement, (2) one epoch later, while A waits in the prune queue: on the restarted chain A resolves to nobody.
// (Export/restart scaffolding as in c18_operator_commission_time_test.go.) Injected with `go test -overlay`.

import (
	"encoding/json"

	sdkmath "cosmossdk.io/math"
	exocoreapp "github.com/ExocoreNetwork/exocore/app"
	utiltx "github.com/ExocoreNetwork/exocore/testutil/tx"
	"github.com/ExocoreNetwork/exocore/utils"
	assetstypes "github.com/ExocoreNetwork/exocore/x/assets/types"
	avstypes "github.com/ExocoreNetwork/exocore/x/avs/types"
	delegationtypes "github.com/ExocoreNetwork/exocore/x/delegation/types"
	dogfoodtypes "github.com/ExocoreNetwork/exocore/x/dogfood/types"
	epochstypes "github.com/ExocoreNetwork/exocore/x/epochs/types"
	operatortypes "github.com/ExocoreNetwork/exocore/x/operator/types"
	oracletypes "github.com/ExocoreNetwork/exocore/x/oracle/types"
	abci "github.com/cometbft/cometbft/abci/types"
	"github.com/cosmos/cosmos-sdk/codec"
	pruningtypes "github.com/cosmos/cosmos-sdk/store/pruning/types"
	sdk "github.com/cosmos/cosmos-sdk/types"
	"github.com/cosmos/cosmos-sdk/types/module"
	"github.com/ethereum/go-ethereum/common"
)

// verifC18cModules are the modules whose exported genesis is carried over to the restarted chain.
var verifC18cModules = []string{
	epochstypes.ModuleName,
	assetstypes.ModuleName,
	operatortypes.ModuleName,
	delegationtypes.ModuleName,
	dogfoodtypes.ModuleName,
	oracletypes.ModuleName,
}

// verifC18cExport exports the committed state of the running chain (app/export.go) for the modules
// above, and returns the exported document, split per module.
func (suite *KeeperTestSuite) verifC18cExport(app *exocoreapp.ExocoreApp) (map[string]json.RawMessage, int64) {
	exported, err := app.ExportAppStateAndValidators(false, nil, verifC18cModules)
	suite.Require().NoError(err)
	var perModule map[string]json.RawMessage
	suite.Require().NoError(json.Unmarshal(exported.AppState, &perModule))
	suite.Require().Len(perModule, len(verifC18cModules))
	return perModule, exported.Height
}

// verifC18cRestart initialises a fresh chain from the exported document. It returns the new app and a
// context in the middle of the first block of the restarted chain (BeginBlock done), which is the
// same position in which suite.Ctx is for the original chain.
func (suite *KeeperTestSuite) verifC18cRestart(
	exported map[string]json.RawMessage, height int64,
) (*exocoreapp.ExocoreApp, sdk.Context) {
	pruneOpts := pruningtypes.NewPruningOptionsFromString(pruningtypes.PruningOptionDefault)
	appI, genesisState := exocoreapp.SetupTestingApp(utils.DefaultChainID, &pruneOpts, false)()
	app, ok := appI.(*exocoreapp.ExocoreApp)
	suite.Require().True(ok)
	for name, bz := range exported {
		genesisState[name] = bz
	}
	// stateless validation of the exported sections, as `exocored validate-genesis` would do.
	// (x/assets is skipped: the asset address of the test fixture is in checksum case, which
	// the validation of x/assets rejects even for the genesis the suite itself starts from.)
	for name, bz := range exported {
		if name == assetstypes.ModuleName {
			continue
		}
		basics, ok := exocoreapp.ModuleBasics[name].(module.HasGenesisBasics)
		suite.Require().True(ok, name)
		suite.Require().NoError(basics.ValidateGenesis(app.AppCodec(), app.GetTxConfig(), bz), name)
	}
	stateBytes, err := json.MarshalIndent(genesisState, "", " ")
	suite.Require().NoError(err)
	// the header of the block the original chain is currently in
	header := suite.Ctx.BlockHeader()
	suite.Require().Equal(height, header.Height)
	app.InitChain(
		abci.RequestInitChain{
			Time:            header.Time,
			ChainId:         utils.DefaultChainID,
			InitialHeight:   height,
			Validators:      []abci.ValidatorUpdate{},
			ConsensusParams: exocoreapp.DefaultConsensusParams,
			AppStateBytes:   stateBytes,
		},
	)
	// exporting the freshly initialised chain again yields the same document
	// (x/operator is left out: on the unchanged tree its InitGenesis resets the update time of
	// every commission to the block time, which is unrelated to this demonstration)
	initCtx := app.BaseApp.NewContext(false, header)
	reExported := map[string]codec.ProtoMarshaler{
		epochstypes.ModuleName:     app.EpochsKeeper.ExportGenesis(initCtx),
		assetstypes.ModuleName:     app.AssetsKeeper.ExportGenesis(initCtx),
		delegationtypes.ModuleName: app.DelegationKeeper.ExportGenesis(initCtx),
		dogfoodtypes.ModuleName:    app.StakingKeeper.ExportGenesis(initCtx),
	}
	for name, gs := range reExported {
		suite.Require().JSONEq(
			string(exported[name]), string(app.AppCodec().MustMarshalJSON(gs)), name,
		)
	}
	app.BeginBlock(abci.RequestBeginBlock{Header: header})
	return app, app.BaseApp.NewContext(false, header)
}



// verifC18cReplace replaces the key A of an active validator by a fresh key B and returns what is needed to ask for A.
func (suite *KeeperTestSuite) verifC18cReplace() (string, sdk.AccAddress, sdk.ConsAddress) {
	chainID := avstypes.ChainIDWithoutRevision(suite.Ctx.ChainID())
	op := suite.Operators[0]
	found, keyA, err := suite.App.OperatorKeeper.GetOperatorConsKeyForChainID(suite.Ctx, op, chainID)
	suite.Require().NoError(err)
	suite.Require().True(found)
	_, isVal := suite.App.StakingKeeper.GetExocoreValidator(suite.Ctx, keyA.ToConsAddr())
	suite.Require().True(isVal, "genesis operator is an active validator with key A")
	keyB := utiltx.GenerateConsensusKey()
	suite.Require().NoError(suite.App.OperatorKeeper.SetOperatorConsKeyForChainID(suite.Ctx, op, chainID, keyB))
	suite.Commit()
	_ = sdkmath.NewInt
	_ = common.Address{}
	return chainID, op, keyA.ToConsAddr()
}

func (suite *KeeperTestSuite) verifC18cCheck(chainID string, op sdk.AccAddress, addrA sdk.ConsAddress, when string) {
	ok, who := suite.App.OperatorKeeper.GetOperatorAddressForChainIDAndConsAddr(suite.Ctx, chainID, addrA)
	suite.Require().True(ok && who.Equals(op), "running chain, %s: the replaced key A resolves to its operator", when)
	exported, height := suite.verifC18cExport(suite.App)
	newApp, newCtx := suite.verifC18cRestart(exported, height)
	ok, who = newApp.OperatorKeeper.GetOperatorAddressForChainIDAndConsAddr(newCtx, chainID, addrA)
	suite.True(ok && who.Equals(op),
		"REPLAY-CONFIRMED if false: %s: after export and restart the replaced key A (%s) resolves to nobody (found=%v): it cannot be slashed and another operator can register it", when, addrA, ok)
}

// (1) exported in the epoch of the replacement: A is the operator's recorded previous key
func (suite *KeeperTestSuite) TestVerifReplayPreviousKeyResolvesAfterRestart() {
	chainID, op, addrA := suite.verifC18cReplace()
	suite.verifC18cCheck(chainID, op, addrA, "epoch of the replacement (A is the recorded previous key)")
}

// (2) exported one epoch later: the previous-key record is gone, A waits in the prune queue of x/dogfood
func (suite *KeeperTestSuite) TestVerifReplayQueuedKeyResolvesAfterRestart() {
	chainID, op, addrA := suite.verifC18cReplace()
	suite.CommitAfter(suite.EpochDuration)
	suite.Commit()
	suite.verifC18cCheck(chainID, op, addrA, "one epoch later (A waits in the prune queue)")
}
