package keeper_test

// Replay of the failing obligation (x/operator/types.GenesisState).ValidateSlashStates$1$1/C18.vss.undel (an executed
// slash record, as the slash execution writes it, is accepted by genesis validation). The slash execution records one
// entry per pending undelegation it visited, with the amount actually taken - which is 0 when the proportion of a small
// undelegation rounds down to nothing; genesis validation refuses an entry whose amount is not positive. History: an
// operator with a pending undelegation of 1 base unit is slashed for downtime; the operator genesis exported afterwards
// does not validate. Injected with `go test -overlay` (never written into /repo).

import (
	"time"

	sdkmath "cosmossdk.io/math"
	avstypes "github.com/ExocoreNetwork/exocore/x/avs/types"
	delegationtypes "github.com/ExocoreNetwork/exocore/x/delegation/types"
	"github.com/ExocoreNetwork/exocore/x/operator/keeper"
	stakingtypes "github.com/cosmos/cosmos-sdk/x/staking/types"
	"github.com/ethereum/go-ethereum/common"
)

func (suite *OperatorTestSuite) TestVerifReplaySlashRecordWithZeroAmountValidates() {
	suite.prepareOperator()
	usdtAddress := common.HexToAddress("0xdAC17F958D2ee523a2206206994597C13D831ec7")
	assetDecimal := 6
	suite.prepareDeposit(usdtAddress, sdkmath.NewIntWithDecimal(200, assetDecimal))
	suite.prepareDelegation(true, suite.assetAddr, sdkmath.NewIntWithDecimal(100, assetDecimal))
	suite.NoError(suite.App.DelegationKeeper.AssociateOperatorWithStaker(suite.Ctx, suite.clientChainLzID, suite.operatorAddr, suite.Address[:]))
	avsAddr := avstypes.GenerateAVSAddr(avstypes.ChainIDWithoutRevision(suite.Ctx.ChainID()))
	suite.NoError(suite.App.OperatorKeeper.OptIn(suite.Ctx, suite.operatorAddr, avsAddr))
	suite.CommitAfter(time.Hour*24 + time.Nanosecond)
	infractionHeight := suite.Ctx.BlockHeight()
	values, err := suite.App.OperatorKeeper.GetOperatorOptedUSDValue(suite.Ctx, avsAddr, suite.operatorAddr.String())
	suite.Require().NoError(err)
	power := values.TotalUSDValue.TruncateInt64()
	suite.Require().Positive(power)
	suite.NextBlock()
	// an undelegation of one base unit, started after the infraction
	suite.Require().NoError(suite.App.DelegationKeeper.UndelegateFrom(suite.Ctx, &delegationtypes.DelegationOrUndelegationParams{
		ClientChainID: suite.clientChainLzID, LzNonce: 7, AssetsAddress: suite.assetAddr.Bytes(), StakerAddress: suite.Address[:],
		OperatorAddress: suite.operatorAddr, OpAmount: sdkmath.NewInt(1), TxHash: common.HexToHash("0x77"),
	}))
	suite.NextBlock()

	factor := suite.App.SlashingKeeper.SlashFractionDowntime(suite.Ctx)
	suite.App.OperatorKeeper.SlashWithInfractionReason(suite.Ctx, suite.operatorAddr, infractionHeight, power, factor, stakingtypes.Infraction_INFRACTION_DOWNTIME)
	info, err := suite.App.OperatorKeeper.GetOperatorSlashInfo(suite.Ctx, avsAddr, suite.operatorAddr.String(), keeper.GetSlashIDForDogfood(stakingtypes.Infraction_INFRACTION_DOWNTIME, infractionHeight))
	suite.Require().NoError(err, "the slash was executed and recorded")
	suite.Require().Len(info.ExecutionInfo.SlashUndelegations, 1)
	suite.T().Logf("recorded slash of the pending undelegation: %s", info.ExecutionInfo.SlashUndelegations[0].Amount)

	exported := suite.App.OperatorKeeper.ExportGenesis(suite.Ctx)
	suite.NoError(exported.Validate(), "REPLAY-CONFIRMED if error: the operator genesis exported after the slash does not validate")
}
