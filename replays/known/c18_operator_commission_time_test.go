package keeper_test

// Replay of the failing obligation (x/operator/keeper.Keeper).InitGenesis/C18.oig.exact: initialising a fresh chain from
// the exported genesis reproduces the operator module's state exactly. The solver's counterexample is the loop body:
// SetOperatorInfo stamps the commission with the current block time. History used here: the genesis operators, whose
// commission was last updated at genesis, exported one epoch later and restarted: every commission update time has moved
// to the restart time, so exporting again does not yield the same document. (Export/restart scaffolding adapted from a
// seeded-change demonstration.) Injected with `go test -overlay`.

import (
	"encoding/json"

	sdkmath "cosmossdk.io/math"
	exocoreapp "github.com/ExocoreNetwork/exocore/app"
	"github.com/ExocoreNetwork/exocore/utils"
	assetstypes "github.com/ExocoreNetwork/exocore/x/assets/types"
	avstypes "github.com/ExocoreNetwork/exocore/x/avs/types"
	delegationtypes "github.com/ExocoreNetwork/exocore/x/delegation/types"
	dogfoodtypes "github.com/ExocoreNetwork/exocore/x/dogfood/types"
	epochstypes "github.com/ExocoreNetwork/exocore/x/epochs/types"
	operatortypes "github.com/ExocoreNetwork/exocore/x/operator/types"
	oracletypes "github.com/ExocoreNetwork/exocore/x/oracle/types"
	abci "github.com/cometbft/cometbft/abci/types"
	"github.com/cosmos/cosmos-sdk/codec"
	pruningtypes "github.com/cosmos/cosmos-sdk/store/pruning/types"
	sdk "github.com/cosmos/cosmos-sdk/types"
	"github.com/cosmos/cosmos-sdk/types/module"
	"github.com/ethereum/go-ethereum/common"
)

// verifC18bModules are the modules whose exported genesis is carried over to the restarted chain.
var verifC18bModules = []string{
	epochstypes.ModuleName,
	assetstypes.ModuleName,
	operatortypes.ModuleName,
	delegationtypes.ModuleName,
	dogfoodtypes.ModuleName,
	oracletypes.ModuleName,
}

// verifC18bExport exports the committed state of the running chain (app/export.go) for the modules
// above, and returns the exported document, split per module.
func (suite *KeeperTestSuite) verifC18bExport(app *exocoreapp.ExocoreApp) (map[string]json.RawMessage, int64) {
	exported, err := app.ExportAppStateAndValidators(false, nil, verifC18bModules)
	suite.Require().NoError(err)
	var perModule map[string]json.RawMessage
	suite.Require().NoError(json.Unmarshal(exported.AppState, &perModule))
	suite.Require().Len(perModule, len(verifC18bModules))
	return perModule, exported.Height
}

// verifC18bRestart initialises a fresh chain from the exported document. It returns the new app and a
// context in the middle of the first block of the restarted chain (BeginBlock done), which is the
// same position in which suite.Ctx is for the original chain.
func (suite *KeeperTestSuite) verifC18bRestart(
	exported map[string]json.RawMessage, height int64,
) (*exocoreapp.ExocoreApp, sdk.Context) {
	pruneOpts := pruningtypes.NewPruningOptionsFromString(pruningtypes.PruningOptionDefault)
	appI, genesisState := exocoreapp.SetupTestingApp(utils.DefaultChainID, &pruneOpts, false)()
	app, ok := appI.(*exocoreapp.ExocoreApp)
	suite.Require().True(ok)
	for name, bz := range exported {
		genesisState[name] = bz
	}
	// stateless validation of the exported sections, as `exocored validate-genesis` would do.
	// (x/assets is skipped: the asset address of the test fixture is in checksum case, which
	// the validation of x/assets rejects even for the genesis the suite itself starts from.)
	for name, bz := range exported {
		if name == assetstypes.ModuleName {
			continue
		}
		basics, ok := exocoreapp.ModuleBasics[name].(module.HasGenesisBasics)
		suite.Require().True(ok, name)
		suite.Require().NoError(basics.ValidateGenesis(app.AppCodec(), app.GetTxConfig(), bz), name)
	}
	stateBytes, err := json.MarshalIndent(genesisState, "", " ")
	suite.Require().NoError(err)
	// the header of the block the original chain is currently in
	header := suite.Ctx.BlockHeader()
	suite.Require().Equal(height, header.Height)
	app.InitChain(
		abci.RequestInitChain{
			Time:            header.Time,
			ChainId:         utils.DefaultChainID,
			InitialHeight:   height,
			Validators:      []abci.ValidatorUpdate{},
			ConsensusParams: exocoreapp.DefaultConsensusParams,
			AppStateBytes:   stateBytes,
		},
	)
	// exporting the freshly initialised chain again yields the same document
	// (x/operator is left out: on the unchanged tree its InitGenesis resets the update time of
	// every commission to the block time, which is unrelated to this demonstration)
	initCtx := app.BaseApp.NewContext(false, header)
	reExported := map[string]codec.ProtoMarshaler{
		epochstypes.ModuleName:     app.EpochsKeeper.ExportGenesis(initCtx),
		assetstypes.ModuleName:     app.AssetsKeeper.ExportGenesis(initCtx),
		delegationtypes.ModuleName: app.DelegationKeeper.ExportGenesis(initCtx),
		dogfoodtypes.ModuleName:    app.StakingKeeper.ExportGenesis(initCtx),
	}
	for name, gs := range reExported {
		suite.Require().JSONEq(
			string(exported[name]), string(app.AppCodec().MustMarshalJSON(gs)), name,
		)
	}
	app.BeginBlock(abci.RequestBeginBlock{Header: header})
	return app, app.BaseApp.NewContext(false, header)
}


func (suite *KeeperTestSuite) TestVerifReplayOperatorGenesisRoundTrip() {
	suite.CommitAfter(suite.EpochDuration)
	suite.Commit()
	exported, height := suite.verifC18bExport(suite.App)
	newApp, newCtx := suite.verifC18bRestart(exported, height)
	_ = avstypes.ModuleName
	_ = sdkmath.NewInt
	_ = common.Address{}
	reExported := newApp.AppCodec().MustMarshalJSON(newApp.OperatorKeeper.ExportGenesis(newCtx))
	suite.JSONEq(string(exported[operatortypes.ModuleName]), string(reExported),
		"REPLAY-CONFIRMED if different: the operator genesis exported from the restarted chain differs from the document it was started from")
}
