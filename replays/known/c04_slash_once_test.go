package keeper_test

// Replay of the counterexample to obligation (*x/operator/keeper.Keeper).Slash/C04.slash.once (and
// C09.slash.atomic): the same slash id is executed twice; the second call must fail AND leave the
// operator's pool untouched. Injected with `go test -overlay` (never written into /repo).

import (
	"time"

	sdkmath "cosmossdk.io/math"
	avstypes "github.com/ExocoreNetwork/exocore/x/avs/types"
	"github.com/ExocoreNetwork/exocore/x/operator/keeper"
	"github.com/ExocoreNetwork/exocore/x/operator/types"
	stakingtypes "github.com/cosmos/cosmos-sdk/x/staking/types"
	"github.com/ethereum/go-ethereum/common"
)

func (suite *OperatorTestSuite) TestVerifReplaySlashOnce() {
	suite.prepareOperator()
	usdtAddress := common.HexToAddress("0xdAC17F958D2ee523a2206206994597C13D831ec7")
	depositAmount := sdkmath.NewIntWithDecimal(200, 6)
	suite.prepareDeposit(usdtAddress, depositAmount)
	suite.prepareDelegation(true, suite.assetAddr, sdkmath.NewIntWithDecimal(100, 6))
	avsAddr := avstypes.GenerateAVSAddr(avstypes.ChainIDWithoutRevision(suite.Ctx.ChainID()))
	suite.NoError(suite.App.DelegationKeeper.AssociateOperatorWithStaker(suite.Ctx, suite.clientChainLzID, suite.operatorAddr, suite.Address[:]))
	suite.NoError(suite.App.OperatorKeeper.OptIn(suite.Ctx, suite.operatorAddr, avsAddr))
	suite.CommitAfter(time.Hour*24 + time.Nanosecond)
	infractionHeight := suite.Ctx.BlockHeight()
	vals, err := suite.App.OperatorKeeper.GetOperatorOptedUSDValue(suite.Ctx, avsAddr, suite.operatorAddr.String())
	suite.NoError(err)
	power := vals.TotalUSDValue.TruncateInt64()
	suite.NextBlock()

	slashType := stakingtypes.Infraction_INFRACTION_DOWNTIME
	param := &types.SlashInputInfo{
		IsDogFood: true, Power: power, SlashType: uint32(slashType), Operator: suite.operatorAddr, AVSAddr: avsAddr,
		SlashID: keeper.GetSlashIDForDogfood(slashType, infractionHeight), SlashEventHeight: infractionHeight,
		SlashProportion: sdkmath.LegacyNewDecWithPrec(10, 2),
	}
	suite.NoError(suite.App.OperatorKeeper.Slash(suite.Ctx, param))
	before, err := suite.App.AssetsKeeper.GetOperatorSpecifiedAssetInfo(suite.Ctx, suite.operatorAddr, suite.assetID)
	suite.NoError(err)
	// second execution of the same slash id
	err = suite.App.OperatorKeeper.Slash(suite.Ctx, param)
	suite.Error(err, "REPLAY: a duplicate slash id must be rejected")
	after, err2 := suite.App.AssetsKeeper.GetOperatorSpecifiedAssetInfo(suite.Ctx, suite.operatorAddr, suite.assetID)
	suite.NoError(err2)
	suite.Equal(before.TotalAmount.String(), after.TotalAmount.String(), "REPLAY-CONFIRMED if different: rejected duplicate slash still reduced the pool")
}
