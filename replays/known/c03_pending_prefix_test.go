package keeper_test

// Replay of the failing obligation (*x/delegation/keeper.Keeper).GetPendingUndelegationRecKeys/C03.gpurk.due: the
// undelegations looked up for a block height must be exactly those whose completion height is that height. The
// obligation fails because hex(16) = "0x10" is a byte prefix of hex(256) = "0x100": the record due at height 256 is
// returned (and released by EndBlock) at height 16. Injected with `go test -overlay` (never written into /repo).

import (
	sdkmath "cosmossdk.io/math"
	"github.com/ExocoreNetwork/exocore/x/delegation/types"
	"github.com/ethereum/go-ethereum/common"
)

func (suite *DelegationTestSuite) TestVerifReplayPendingPrefix() {
	ctx := suite.Ctx.WithBlockHeight(1)
	mk := func(nonce, complete uint64) types.UndelegationRecord {
		return types.UndelegationRecord{
			StakerID:              "0x3e108c058e8066da635321dc3018294ca82ddedf_0x65",
			AssetID:               "0xdac17f958d2ee523a2206206994597c13d831ec7_0x65",
			OperatorAddr:          "exo18cggcpvwspnd5c6ny8wrqxpffj5zmhklprtnph",
			TxHash:                common.BigToHash(sdkmath.NewIntFromUint64(nonce).BigInt()).Hex(),
			IsPending:             true,
			BlockNumber:           1,
			CompleteBlockNumber:   complete,
			LzTxNonce:             nonce,
			Amount:                sdkmath.NewInt(10),
			ActualCompletedAmount: sdkmath.NewInt(10),
		}
	}
	err := suite.App.DelegationKeeper.SetUndelegationRecords(ctx, []types.UndelegationRecord{mk(1, 16), mk(2, 256)})
	suite.NoError(err)
	due16, err := suite.App.DelegationKeeper.GetPendingUndelegationRecords(ctx, 16)
	suite.NoError(err)
	for _, r := range due16 {
		suite.Equal(uint64(16), r.CompleteBlockNumber,
			"REPLAY-CONFIRMED if different: a record completing at height %d is returned as due at height 16", r.CompleteBlockNumber)
	}
	suite.Equal(1, len(due16), "REPLAY-CONFIRMED if different: exactly one record is due at height 16")
}
