package keeper_test

// Replay of the failing obligations (x/dogfood/keeper.Keeper).GetAllConsAddrsToPrune/C18.gacatp.prefix and
// .GetAllUndelegationsToMature/C18.gautm.prefix: the genesis-export accessors must list what was queued in
// their own collection. Injected with `go test -overlay` (never written into /repo).

import (
	sdk "github.com/cosmos/cosmos-sdk/types"
)

func (suite *KeeperTestSuite) TestVerifReplayGenesisPrefix() {
	k := suite.App.StakingKeeper
	ctx := suite.Ctx
	consAddr := sdk.ConsAddress([]byte("verif-cons-address-1"))
	recordKey := []byte("verif-undelegation-record-key")
	before1 := len(k.GetAllConsAddrsToPrune(ctx))
	before2 := len(k.GetAllUndelegationsToMature(ctx))
	k.AppendConsensusAddrToPrune(ctx, 77, consAddr)
	k.AppendUndelegationToMature(ctx, 78, recordKey)
	suite.Equal(1, len(k.GetConsensusAddrsToPrune(ctx, 77)), "queued consensus address is stored")
	suite.Equal(before1+1, len(k.GetAllConsAddrsToPrune(ctx)),
		"REPLAY-CONFIRMED if different: GetAllConsAddrsToPrune does not export the queued consensus address")
	suite.Equal(before2+1, len(k.GetAllUndelegationsToMature(ctx)),
		"REPLAY-CONFIRMED if different: GetAllUndelegationsToMature does not export the queued undelegation")
}
