package keeper_test

// Replay of the failing obligation (x/delegation/keeper.Keeper).UpdateNSTBalance$2/C09.nst.positive (guard before
// RemoveShare: the share handed on is positive). The solver's counterexample is a delegation record whose
// undelegatable share is 0 - the record of an operator the staker has fully undelegated from; such records are never
// deleted. History: the staker delegates to operators A and B, undelegates everything from one of them, and the client
// chain then reports a balance decrease that exceeds the withdrawable balance plus the pending undelegation: the
// visitor reaches the empty record first, RemoveShare refuses a share of 0, UpdateNSTBalance returns that error - after
// it has already taken the withdrawable balance and the pending undelegation - and the share delegated to the other
// operator is never reduced. Injected with `go test -overlay` (never written into /repo).

import (
	"bytes"

	sdkmath "cosmossdk.io/math"
	assettypes "github.com/ExocoreNetwork/exocore/x/assets/types"
	sdk "github.com/cosmos/cosmos-sdk/types"
)

func (suite *DelegationTestSuite) TestVerifReplayNSTDecreaseWithEmptiedDelegation() {
	suite.basicPrepare()
	suite.prepareDeposit(sdkmath.NewInt(100))
	opA := suite.opAccAddr
	opB := sdk.AccAddress(bytes.Repeat([]byte{0xfe}, 20))
	// the record that is emptied must be the one the visitor reaches first (records are ordered by operator address)
	first, second := opA, opB
	if first.String() > second.String() {
		first, second = second, first
	}
	ev1 := suite.prepareDelegation(sdkmath.NewInt(30), first)
	suite.prepareDelegation(sdkmath.NewInt(30), second)
	// undelegate everything from the first operator
	ev1.LzNonce = 1
	ev1.OpAmount = sdkmath.NewInt(30)
	suite.Require().NoError(suite.App.DelegationKeeper.UndelegateFrom(suite.Ctx, ev1))

	stakerID, assetID := assettypes.GetStakerIDAndAssetID(suite.clientChainLzID, suite.Address[:], suite.assetAddr.Bytes())
	state := func() (withdrawable, deposit, poolSecond sdkmath.Int) {
		st, err := suite.App.AssetsKeeper.GetStakerSpecifiedAssetInfo(suite.Ctx, stakerID, assetID)
		suite.Require().NoError(err)
		op, err := suite.App.AssetsKeeper.GetOperatorSpecifiedAssetInfo(suite.Ctx, second, assetID)
		suite.Require().NoError(err)
		return st.WithdrawableAmount, st.TotalDepositAmount, op.TotalAmount
	}
	w0, d0, p0 := state()
	suite.Require().True(w0.Equal(sdkmath.NewInt(40)) && p0.Equal(sdkmath.NewInt(30)))

	// balance decrease of 80: 40 withdrawable + 30 pending + 10 from the share delegated to the second operator
	err := suite.App.DelegationKeeper.UpdateNSTBalance(suite.Ctx, stakerID, assetID, sdkmath.NewInt(-80))
	w1, d1, p1 := state()
	if err != nil {
		suite.True(w1.Equal(w0) && d1.Equal(d0) && p1.Equal(p0),
			"REPLAY-CONFIRMED if false: UpdateNSTBalance reported %q but withdrawable went %s -> %s, total deposit %s -> %s, pool of the other operator %s -> %s",
			err, w0, w1, d0, d1, p0, p1)
	} else {
		suite.True(p1.LT(p0) && p1.GTE(sdkmath.NewInt(20)), "the remaining 10 (rounded down) are taken from the share delegated to the second operator: pool %s -> %s", p0, p1)
	}
}
