package keeper_test

// Replay of the failing obligation (x/feedistribution/keeper.Keeper).AllocateTokensToStakers/C17.ats.sum: what is
// booked for the stakers of an operator (single-staker allocations plus the community-pool share) must add up to the
// reward handed in. The solver's counterexample is the path with at least one staker allocation, after which the whole
// reward is added to the community pool once more. Injected with `go test -overlay` (never written into /repo).

import (
	sdkmath "cosmossdk.io/math"
	avstypes "github.com/ExocoreNetwork/exocore/x/avs/types"
	sdk "github.com/cosmos/cosmos-sdk/types"
)

func (suite *KeeperTestSuite) TestVerifReplayStakerRewardsSum() {
	suite.SetupTest()
	ctx := suite.Ctx
	k := suite.App.DistrKeeper
	sk := suite.App.StakingKeeper
	vals := sk.GetAllExocoreValidators(ctx)
	suite.Require().NotEmpty(vals)
	pk, err := vals[0].ConsPubKey()
	suite.Require().NoError(err)
	v, found := sk.ValidatorByConsAddrForChainID(ctx, sdk.GetConsAddress(pk), avstypes.ChainIDWithoutRevision(ctx.ChainID()))
	suite.Require().True(found)
	op := sdk.AccAddress(v.GetOperator())
	stakers := map[string]bool{}
	avsList, err := sk.GetOptedInAVSForOperator(ctx, op.String())
	suite.Require().NoError(err)
	for _, avs := range avsList {
		assets, err := sk.GetAVSSupportedAssets(ctx, avs)
		if err != nil {
			continue
		}
		for assetID := range assets {
			list, err := sk.GetStakersByOperator(ctx, op.String(), assetID)
			if err != nil {
				continue
			}
			for _, s := range list.Stakers {
				stakers[s] = true
			}
		}
	}
	suite.Require().NotEmpty(stakers, "the test genesis has stakers delegating to the first validator's operator")
	denom := suite.App.ExomintKeeper.GetParams(ctx).MintDenom
	sum := func() sdkmath.LegacyDec {
		t := sdkmath.LegacyZeroDec()
		for s := range stakers {
			t = t.Add(k.GetStakerRewards(ctx, s).Rewards.AmountOf(denom))
		}
		return t
	}
	reward := sdk.NewDecCoins(sdk.NewDecCoin(denom, sdkmath.NewInt(1000000)))
	feePool := k.GetFeePool(ctx)
	poolBefore, stakedBefore := feePool.CommunityPool.AmountOf(denom), sum()
	k.AllocateTokensToStakers(ctx, op, reward, feePool)
	poolDelta, stakedDelta := feePool.CommunityPool.AmountOf(denom).Sub(poolBefore), sum().Sub(stakedBefore)
	suite.T().Logf("reward 1000000: stakers got %s, community pool got %s", stakedDelta, poolDelta)
	suite.True(poolDelta.Add(stakedDelta).Equal(sdkmath.LegacyNewDec(1000000)),
		"REPLAY-CONFIRMED if different: booked %s (stakers %s + community pool %s) for a reward of 1000000", poolDelta.Add(stakedDelta), stakedDelta, poolDelta)
}
