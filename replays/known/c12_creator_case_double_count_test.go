package keeper_test

// Replay of the failing obligation (*x/oracle/keeper/aggregator.filter).filtrate/C12.flt.canonical: the duplicate filter
// identifies a validator by the same (canonical) string the power is looked up and accumulated under. The solver's
// counterexample: two messages whose Creator strings differ but decode to the same address. History: bech32 accepts an
// all-upper-case spelling of an address; validator v1 (power 2 of 4) reports source round "1" = 100 with its usual
// lower-case Creator (nonce 1) and once more with the upper-case spelling (nonce 2). The filter keys its "already
// reported" sets by the raw Creator string, so the repetition is counted: the calculator adds v1's power twice (4 of 4)
// and confirms 100 for the source round although validators holding only half of the power reported it.
// Injected with `go test -overlay` (never written into /repo).

import (
	reflect "reflect"
	"strings"
	"testing"

	math "cosmossdk.io/math"
	keepertest "github.com/ExocoreNetwork/exocore/testutil/keeper"
	dogfoodkeeper "github.com/ExocoreNetwork/exocore/x/dogfood/keeper"
	dogfoodtypes "github.com/ExocoreNetwork/exocore/x/dogfood/types"
	"github.com/ExocoreNetwork/exocore/x/oracle/keeper"
	"github.com/ExocoreNetwork/exocore/x/oracle/types"
	"github.com/agiledragon/gomonkey/v2"
	"github.com/cosmos/cosmos-sdk/testutil/mock"
	sdk "github.com/cosmos/cosmos-sdk/types"
	"github.com/stretchr/testify/assert"
	"github.com/stretchr/testify/require"
)

func TestVerifReplayCreatorCaseDoubleCount(t *testing.T) {
	resetSingle()
	defer resetSingle()
	k, ctx := keepertest.OracleKeeper(t)
	ctx = ctx.WithBlockHeight(2)
	p := types.DefaultParams()
	p.TokenFeeders[1].StartBaseBlock = 1
	k.SetParams(ctx, p)
	ms := keeper.NewMsgServerImpl(*k)
	var valAddrs [3][]byte
	var creators [3]string
	for i := range valAddrs {
		pk, err := mock.NewPV().GetPubKey()
		require.NoError(t, err)
		valAddrs[i] = pk.Address().Bytes()
		creators[i] = sdk.AccAddress(pk.Address()).String()
	}
	patches := gomonkey.ApplyMethod(reflect.TypeOf(dogfoodkeeper.Keeper{}), "GetLastTotalPower", func(dogfoodkeeper.Keeper, sdk.Context) math.Int { return math.NewInt(4) })
	patches.ApplyMethod(reflect.TypeOf(dogfoodkeeper.Keeper{}), "GetAllExocoreValidators", func(dogfoodkeeper.Keeper, sdk.Context) []dogfoodtypes.ExocoreValidator {
		return []dogfoodtypes.ExocoreValidator{{Address: valAddrs[0], Power: 2}, {Address: valAddrs[1], Power: 1}, {Address: valAddrs[2], Power: 1}}
	})
	defer patches.Reset()
	msg := func(creator string, nonce int32, price string) *types.MsgCreatePrice {
		return &types.MsgCreatePrice{Creator: creator, FeederID: 1, BasedBlock: 1, Nonce: nonce,
			Prices: []*types.PriceSource{{SourceID: 1, Prices: []*types.PriceTimeDetID{{Price: price, Decimal: 18, Timestamp: "2024-05-01 01:01:01", DetID: "1"}}}}}
	}
	upper := strings.ToUpper(creators[0])
	a1, err := sdk.AccAddressFromBech32(creators[0])
	require.NoError(t, err)
	a2, err := sdk.AccAddressFromBech32(upper)
	require.NoError(t, err, "the upper-case spelling is a valid bech32 address")
	require.True(t, a1.Equals(a2), "... of the same account")
	require.NoError(t, msg(upper, 2, "100").ValidateBasic())

	_, err = ms.CreatePrice(ctx, msg(creators[0], 1, "100"))
	require.NoError(t, err)
	_, err = ms.CreatePrice(ctx, msg(upper, 2, "100"))
	assert.ErrorIs(t, err, types.ErrPriceProposalIgnored, "REPLAY-CONFIRMED if no error: v1's repetition of source round \"1\" under the upper-case spelling of its address is counted")
	// the other half of the power reports a different value for the same source round
	_, _ = ms.CreatePrice(ctx, msg(creators[1], 1, "999"))
	_, _ = ms.CreatePrice(ctx, msg(creators[2], 1, "999"))
	if pr, found := k.GetPrices(ctx, 1); found {
		last := pr.PriceList[len(pr.PriceList)-1]
		assert.NotEqual(t, "100", last.Price, "REPLAY-CONFIRMED if equal: price 100, reported by validators holding half of the voting power, became the final price of the round")
	}
}
