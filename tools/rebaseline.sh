#!/bin/bash
# regenerates every claimed baseline (admission rules in cmd/exovc/check.go) - run on a clean /repo only
cd /verif
props=${@:-$(python3 -c "import json;print(' '.join(c['property_id'] for c in json.load(open('MANIFEST.json'))['checks']))")}
for p in $props; do bin/exovc baseline -p $p -timeout 20s 2>&1 | tail -3; done
