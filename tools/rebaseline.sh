#!/bin/bash
# regenerates every claimed baseline (admission rules in cmd/exovc/check.go) - run on a clean /repo only.
# Prints the number of claimed groups before and after and every group that is no longer claimed: a shrinking baseline
# is how a broken engine or contract hides, so it must be looked at every time.
cd /verif
props=${@:-$(python3 -c "import json;print(' '.join(c['property_id'] for c in json.load(open('MANIFEST.json'))['checks']))")}
for p in $props; do
  cp baseline/$p.json /tmp/baseline_prev_$p.json 2>/dev/null
  bin/exovc baseline -p $p -timeout 20s 2>&1 | grep "^baseline\|not verified"
  python3 - $p <<'PY'
import json,sys,os
p=sys.argv[1]
try: old=set(json.load(open('/tmp/baseline_prev_%s.json'%p))['groups'])
except Exception: old=set()
new=set(json.load(open('/verif/baseline/%s.json'%p))['groups'])
lost=sorted(old-new)
print('  %s: %d -> %d claimed groups%s'%(p,len(old),len(new),'' if not lost else '  LOST %d:'%len(lost)))
for g in lost[:12]: print('     -',g)
PY
done
