#!/usr/bin/env python3
"""Regenerates /verif/MANIFEST.json from the per-property table below."""
import json, subprocess

CLAIMED = {
 "C01": ("proof", "Per-row ledger updates proved for all inputs: UpdateAssetValue/DecValue exact spec (refuse to subtract more than present), UpdateStaker/Operator/StakingAsset state all-or-nothing with exact deltas and non-negativity, PerformDepositOrWithdraw deltas (staker row and published total move by exactly +-x, nothing else), RemoveShare(FromOperator)/UndelegateFrom matched -t/+t transfers. Conservation of the asset-wide sum follows from these pointwise deltas by the Lean-checked sum-update lemma; the store invariant instances used as preconditions are listed in evidence.assumptions."),
 "C02": ("proof", "TokensFromShares/SharesFromTokens proved equal to spec functions with cosmos-math's exact rounding; lemmas over the spec functions (round trip <= x always, >= x-1 and cross-staker fairness <= 1 unit under the stated exchange-rate hypothesis, last share takes the pool) discharged by SMT on unbounded integers; CalculateShare, ValidateUndelegationAmount (dust rule), RemoveShare* proved against the pool row."),
 "C03": ("proof", "UndelegateFrom creates exactly one record whose amount equals the tokens removed, with both indexes pointing at it and completion height = start + constant; SetUndelegationRecords (loop invariants), ValidateUndelegationAmount acceptance condition stated exactly (independent of opt-in/jail state), withdrawal within the withdrawable balance always accepted (PerformDepositOrWithdraw). Index injectivity / prefix lookup and EndBlock release are not yet under contract (see evidence.unclaimed and DESIGN.md)."),
 "C09": ("proof", "err != nil ==> state(ctx) == old(state(ctx)) proved per return path for the keeper-level mutators under contract (asset rows, delegation state, RemoveShareFromOperator, PerformDepositOrWithdraw under the ledger invariant)."),
 "C15": ("proof", "The per-identifier BeginBlocker step is proved against the clock rules of the statement (idle / first tick / next tick, exact stored EpochInfo, end(n) before start(n+1) in the ghost trace, only this identifier's entry written, iteration never stopped); MultiEpochHooks fan-out delivers once per subscriber in index order (loop invariants); the subscriber order in app.go is a static obligation re-derived every run."),
}

NOT_APPLICABLE = {
 "C08": "hyperproperty over pairs of executions (map order, restart, scheduling): per-function contracts constrain one execution; no relational verifier available in this family here (DESIGN.md 4.21)",
 "C14": "two-run equivalence between the live oracle aggregator and its replay from disk over a graph of package-level pointers/maps of pointers: outside the memory model, would need a second implementation as contract (DESIGN.md 4.21)",
}
WIP = "check not built yet in this session (work in progress; see DESIGN.md plan)"

props = [json.loads(l) for l in open('/verif/properties.jsonl')]
try:
    commits = subprocess.check_output(['git','-C','/repo','log','--format=%H','d81977c..HEAD','--grep','verif hooks'], text=True).split()
except Exception:
    commits = []
m = {
 "version": 1,
 "setup_cmd": "cd /verif/engine && GOFLAGS=-mod=mod GOPROXY=off GOSUMDB=off GOTOOLCHAIN=local go build -o ../bin/exovc ./cmd/exovc && ../bin/exovc selfcheck",
 "hooks": {"guard": "verif", "enable": "-tags verif (contract files zz_contracts_verif.go are comment-only; exovc reads them with its own parser from the working tree)",
           "baseline_off_cmd": "cd /repo && go test -mod=mod -json -vet=off -count=1 -timeout 25m ./...", "source_commits": commits, "add_only": True},
 "engines": [{"name": "exovc", "path": "/verif/engine", "serves_properties": sorted(CLAIMED),
              "kind_free_text": "self-written verification-condition generator (path-wise symbolic execution of go/ssa with callee contracts, loop invariants, store/heap model) over /repo's working tree; contracts in guarded comment files in /repo; obligations discharged by z3 5.1.0 / z3 4.8.12 / cvc5 1.0.3"}],
 "checks": [], "not_applicable": [],
 "notes": "claimed obligations are listed in /verif/baseline/<id>.json; known findings in /verif/known_findings.json; seeded changes in /verif/seeded/",
}
for p in props:
    i = p['id']
    if i in CLAIMED:
        cat, text = CLAIMED[i]
        m['checks'].append({"property_id": i, "quick_cmd": "bin/exovc check -p %s -tier quick" % i, "thorough_cmd": "bin/exovc check -p %s -tier thorough" % i,
            "evidence_file": "/verif/evidence/%s.json" % i, "replay_cmd_template": "bin/exovc replay {path}", "engine": "exovc",
            "level_claimed": {"category": cat, "text": text, "design_ref": "DESIGN.md section 4 (%s)" % i},
            "level_note": "trusted base: library models (cosmos math, store, codec round trip), key-algebra injectivity, assumed hook/bank contracts, store-invariant instances stated as requires, SMT solvers; all enumerated per run in evidence (trusted_base, assumptions)",
            "technique": "contract-based deductive verification: self-written VC generator over go/ssa, SMT (z3/cvc5)"})
    else:
        m['not_applicable'].append({"property_id": i, "reason": NOT_APPLICABLE.get(i, WIP)})
json.dump(m, open('/verif/MANIFEST.json', 'w'), indent=1)
print("claimed:", sorted(CLAIMED))
