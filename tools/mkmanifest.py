#!/usr/bin/env python3
"""Regenerates /verif/MANIFEST.json from the per-property table below."""
import json, subprocess

CLAIMED = {
 "C01": ("proof", "Per-row ledger updates proved for all inputs: UpdateAssetValue/DecValue exact spec (refuse to subtract more than present), UpdateStaker/Operator/StakingAsset state all-or-nothing with exact deltas and non-negativity, PerformDepositOrWithdraw deltas (staker row and published total move by exactly +-x, nothing else), RemoveShare(FromOperator)/UndelegateFrom matched -t/+t transfers. Conservation of the asset-wide sum follows from these pointwise deltas by the Lean-checked sum-update lemma; the store invariant instances used as preconditions are listed in evidence.assumptions."),
 "C02": ("proof", "TokensFromShares/SharesFromTokens proved equal to spec functions with cosmos-math's exact rounding; lemmas over the spec functions (round trip <= x always, >= x-1 and cross-staker fairness <= 1 unit under the stated exchange-rate hypothesis, last share takes the pool) discharged by SMT on unbounded integers; CalculateShare, ValidateUndelegationAmount (dust rule), RemoveShare* proved against the pool row."),
 "C03": ("proof", "UndelegateFrom creates exactly one record whose amount equals the tokens removed, with both indexes pointing at it and completion height = start + constant; SetUndelegationRecords (loop invariants), ValidateUndelegationAmount acceptance condition stated exactly (independent of opt-in/jail state), withdrawal within the withdrawable balance always accepted (PerformDepositOrWithdraw). Index injectivity / prefix lookup and EndBlock release are not yet under contract (see evidence.unclaimed and DESIGN.md)."),
 "C09": ("proof", "err != nil ==> state(ctx) == old(state(ctx)) proved per return path for the keeper-level mutators under contract (asset rows, delegation state, RemoveShareFromOperator, PerformDepositOrWithdraw under the ledger invariant)."),
 "C15": ("proof", "The per-identifier BeginBlocker step is proved against the clock rules of the statement (idle / first tick / next tick, exact stored EpochInfo, end(n) before start(n+1) in the ghost trace, only this identifier's entry written, iteration never stopped); MultiEpochHooks fan-out delivers once per subscriber in index order (loop invariants); the subscriber order in app.go is a static obligation re-derived every run."),

 "C04": ("proof", "SlashFromUndelegation proved equal to its spec (slash = min(trunc(p*original amount), what is left); nothing else in the record changes; nil iff nothing is left), CheckSlashParameter exact acceptance condition, UpdateOperatorSlashInfo (duplicate id rejected, atomic), Keeper.Slash: a reported failure leaves no trace and a slash id is executed at most once (holds after the fix b0edf5a). SlashAssets itself (closures over iterate helpers) is used through an assumed frame only."),
 "C05": ("proof", "CalculateUSDValue proved equal to amount*price*10^18 div 10^(asset decimals + price decimals) for all inputs, non-negative for non-negative inputs. The per-operator aggregation closures of UpdateVotingPower are not yet under contract (see evidence.unclaimed / DESIGN.md)."),
 "C06": ("proof", "The order handed to sort.Slice by SortByPower is proved to be power descending with ties broken by ascending operator address; dogfood EndBlock: a non-epoch block reports an empty update list, the loop building the new set never goes past MaxValidators and never includes power < 1 (loop invariants). The diff against the previous set and ApplyValidatorChanges are not under contract."),
 "C07": ("proof", "setOperatorConsKeyForChainID: guard obligations show that a key is written only when no operator holds its consensus address and the operator is not removing its key, the previous key is recorded (and the replacement hook fired) at most once per epoch; dogfood EndBlock maintains the registry under the chain id without revision. The quantified index-agreement invariant of DESIGN.md is not established."),
 "C10": ("proof", "Gateway: every assets/delegation precompile transaction method fails without any state change unless contract.CallerAddress equals the configured gateway (CheckExocoreGatewayAddr exact spec); AVS precompile methods hand the keeper the calling contract's own address and require a listed owner for register/update (guard obligations); operator message handlers act for the address GetSigners() reports; UpdateParams of five modules is rejected without state change for a non-authority on mainnet chain ids. Oracle price-submission signature branch is not under contract."),
 "C12": ("proof", "ExceedsThreshold is proved to be the strict comparison power*ThresholdB > total*ThresholdA; AppendPriceTR accepts exactly the expected next round id, stores the round and advances the stored next round id by exactly one, changes nothing when it rejects (loop invariant over the NST update loop); GetNextRoundID/IncreaseNextRoundID exact. The in-memory aggregator (calculator, filter, worker) is outside the memory model and unclaimed."),
 "C13": ("proof", "CheckAndIncreaseNonce: accepted only for a known validator and feeder with nonce = stored+1 (first matching entry, loop invariant), nonce above MaxNonce rejected, rejection leaves store and nonce objects untouched. The ante decorators and the aggregator-side message filter are not under contract."),
 "C16": ("proof", "GetUnbondingCompletionEpoch = current epoch + EpochsUntilUnbonded (exact); AfterUndelegationStarted places a hold and queues the record iff the operator is opting out or its current/previous key is in the validator set, filed under the opt-out finish epoch resp. the completion epoch (guard obligations); hold counts move by exactly one and are refused at the bounds; dogfood EndBlock releases holds only in an epoch-end block. Queue append/clear accessors and AfterEpochEnd are not yet under contract."),
 "C17": ("proof", "exomint AfterEpochEnd: the epoch reward is minted exactly once (and forwarded) when the identifier matches and the reward is non-zero, nothing is minted or changed otherwise (ghost trace of bank calls); the distribution hook precedes the mint hook in app.go (static obligation). Fee allocation arithmetic (AllocateTokens*) is not under contract."),
 "C18": ("proof", "Partial: the dogfood export accessors GetAllOptOutsToFinish / GetAllConsAddrsToPrune / GetAllUndelegationsToMature are proved to iterate exactly the store prefix their setters write under (guard obligation on the prefix handed to KVStorePrefixIterator, loop invariants over the decode loops); this is the obligation that exposed F-GEN-1 (two exports iterated the opt-out prefix; fixed in e20f1ba). The export/import round trip of the other modules' genesis documents is not under contract (see evidence.unclaimed / DESIGN.md)."),
 "C19": ("proof", "GasToRefund = min(available, consumed div quotient); RefundGas pays leftover*gasPrice from the fee collector to the sender, zero refund moves nothing, negative refund rejected, failure leaves no trace; ApplyTransaction runs the message on a cache context whenever hooks are registered (guard). EVM/state-DB behaviour and the ante decorators are external/unclaimed."),
 "C20": ("proof", "GetTaskID returns old+1 (1 if absent) and stores it; CreateAVSTask draws the id from the counter of the task contract the task is stored under and requires a listed owner; RaiseAndResolveChallenge writes only strictly after the statistical period and within the challenge period, once (guard obligations). SetTaskResultInfo windows and AVS registration uniqueness are not yet under contract."),
}

NOT_APPLICABLE = {
 "C08": "hyperproperty over pairs of executions (map order, restart, scheduling): per-function contracts constrain one execution; no relational verifier available in this family here (DESIGN.md 4.21)",
 "C14": "two-run equivalence between the live oracle aggregator and its replay from disk over a graph of package-level pointers/maps of pointers: outside the memory model, would need a second implementation as contract (DESIGN.md 4.21)",
}
NOT_APPLICABLE["C11"] = "no-panic over every ABCI entry point is a whole-program reachability property: the engine proves panic-freedom only as a side obligation (pre:/nopanic groups) of the functions already under contract for other properties; a sweep of all BeginBlock/EndBlock/DeliverTx callees would need contracts for the EVM, the SDK module manager and CometBFT, which are outside what this generator models (DESIGN.md 8)"
WIP = "check not built yet in this session (work in progress; see DESIGN.md plan)"

props = [json.loads(l) for l in open('/verif/properties.jsonl')]
try:
    commits = subprocess.check_output(['git','-C','/repo','log','--format=%H','d81977c..HEAD','--grep','verif hooks'], text=True).split()
except Exception:
    commits = []
m = {
 "version": 1,
 "setup_cmd": "cd /verif/engine && GOFLAGS=-mod=mod GOPROXY=off GOSUMDB=off GOTOOLCHAIN=local go build -o ../bin/exovc ./cmd/exovc && ../bin/exovc selfcheck",
 "hooks": {"guard": "verif", "enable": "-tags verif (contract files zz_contracts_verif.go are comment-only; exovc reads them with its own parser from the working tree)",
           "baseline_off_cmd": "cd /repo && go test -mod=mod -json -vet=off -count=1 -timeout 25m ./...", "source_commits": commits, "add_only": True},
 "engines": [{"name": "exovc", "path": "/verif/engine", "serves_properties": sorted(CLAIMED),
              "kind_free_text": "self-written verification-condition generator (path-wise symbolic execution of go/ssa with callee contracts, loop invariants, store/heap model) over /repo's working tree; contracts in guarded comment files in /repo; obligations discharged by z3 5.1.0 / z3 4.8.12 / cvc5 1.0.3"}],
 "checks": [], "not_applicable": [],
 "notes": "claimed obligations are listed in /verif/baseline/<id>.json; known findings in /verif/known_findings.json; seeded changes in /verif/seeded/",
}
for p in props:
    i = p['id']
    if i in CLAIMED:
        cat, text = CLAIMED[i]
        m['checks'].append({"property_id": i, "quick_cmd": "bin/exovc check -p %s -tier quick" % i, "thorough_cmd": "bin/exovc check -p %s -tier thorough" % i,
            "evidence_file": "/verif/evidence/%s.json" % i, "replay_cmd_template": "bin/exovc replay {path}", "engine": "exovc",
            "level_claimed": {"category": cat, "text": text, "design_ref": "DESIGN.md section 4 (%s)" % i},
            "level_note": "trusted base: library models (cosmos math, store, codec round trip), key-algebra injectivity, assumed hook/bank contracts, store-invariant instances stated as requires, SMT solvers; all enumerated per run in evidence (trusted_base, assumptions)",
            "technique": "contract-based deductive verification: self-written VC generator over go/ssa, SMT (z3/cvc5)"})
    else:
        m['not_applicable'].append({"property_id": i, "reason": NOT_APPLICABLE.get(i, WIP)})
json.dump(m, open('/verif/MANIFEST.json', 'w'), indent=1)
print("claimed:", sorted(CLAIMED))
