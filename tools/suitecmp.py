#!/usr/bin/env python3
"""suitecmp.py <go test -json output>: compares with the 918 stable_pass tests of /root/.vp/BASELINE.json."""
import json, sys
base = json.load(open('/root/.vp/BASELINE.json'))
res = {}
for l in open(sys.argv[1]):
    try:
        e = json.loads(l)
    except Exception:
        continue
    if e.get('Test') and e.get('Action') in ('pass', 'fail', 'skip'):
        res[(e['Package'], e['Test'])] = e['Action']
miss, fail = [], []
for t in base['stable_pass']:
    if isinstance(t, dict):
        k = (t['package'], t['test'])
    elif isinstance(t, list):
        k = tuple(t)
    else:
        k = None
        for sep in ['::', ' ']:
            if sep in t:
                a, b = t.split(sep, 1)
                k = (a, b)
                break
    if k not in res:
        miss.append(t)
    elif res[k] != 'pass':
        fail.append(t)
print('stable_pass %d: missing %d failing %d' % (len(base['stable_pass']), len(miss), len(fail)))
for t in (miss + fail)[:10]:
    print('  ', t)
sys.exit(1 if miss or fail else 0)
