#!/bin/bash
# run every claimed check (quick tier) on the current tree; print one line per property; exit 1 if any fails
cd /verif
fail=0
for p in $(python3 -c "import json;print(' '.join(c['property_id'] for c in json.load(open('MANIFEST.json'))['checks']))") "$@"; do
  out=$(bin/exovc check -p $p 2>&1); rc=$?
  echo "$p rc=$rc $(echo "$out" | tail -1 | cut -c1-150)"
  if [ $rc -ne 0 ]; then fail=1; echo "$out" | grep "^VIOLATION\|machinery" | sed 's/replay=[^ ]* //' | cut -c1-200 | head -5; fi
done
exit $fail
