#!/usr/bin/env python3
"""mkseedprompt.py <prop> <workdir-root>: writes <root>/<prop>.prompt.txt, the brief a seeding sub-agent gets (property text
from properties.jsonl, the places earlier rounds used - from /verif/seeded/<prop>-*/patch.diff - and nothing else from /verif)."""
import json, re, sys, glob
prop, root = sys.argv[1], sys.argv[2]
p = next(json.loads(l) for l in open('/verif/properties.jsonl') if json.loads(l)['id'] == prop)
used = []
for d in sorted(glob.glob('/verif/seeded/%s-*/patch.diff' % prop)):
    txt = open(d).read()
    files = re.findall(r'^\+\+\+ b/(\S+)', txt, re.M)
    funcs = re.findall(r'^@@ [^@]*@@ (func .*)$', txt, re.M)
    used.append('%s (%s)' % (', '.join(files), '; '.join(f[:90] for f in funcs[:2])))
mech = '; '.join(str({'name': m['name'], 'where': m['where']}) for m in p['anchors'].get('mechanism', []))
t = f"""You are helping test a verification effort on the Go repository ExocoreNetwork/exocore (a Cosmos-SDK app chain). You have your own scratch git worktree of the repository at {root}/{prop} (work ONLY inside that directory; never touch /repo or /verif, and do not read anything under /verif). The sandbox has NO network: every go command needs `export GOFLAGS=-mod=mod GOPROXY=off GOSUMDB=off GOTOOLCHAIN=local` first (env does not persist between shell calls).

Here is a semantic property of the system that should always hold:

{prop} — {p['title']}

{p['statement']}

Quantifier: {p['quantifier']['text']}

Anchors (files): {', '.join(p['anchors']['files'])}

Mechanisms: {mech}

Earlier rounds already produced changes in these places; yours must be in DIFFERENT functions (different files if possible) and of a different kind: {' | '.join(used) if used else '(none yet)'}
The repository also contains comment-only files named zz_contracts_verif.go (build tag `verif`): ignore them, do not read or modify them.

YOUR TASK: produce TWO different small source changes ("seeded bugs") to non-test Go files of the repository, each of which BREAKS this property while (a) the repository still compiles (`go build ./...`), and (b) the existing unit tests of the packages you touched, and of the packages that import them within x/, precompiles/ and app/ante, still pass (`go test -vet=off -count=1 -timeout 20m <pkgs>`; the two tests client TestInitConfigNonNotExistError and oracle aggregator TestAggregatorContext fail on the unchanged tree and may be ignored). Prefer changes that need something specific to manifest — a multi-step sequence of operations, an unusual input, a boundary value, a particular ordering, or two cooperating sites that each look fine alone — NOT ones that any ordinary use exposes at once. Realistic shapes: an off-by-one or flipped comparison in a guard, a dropped or reordered check, a write moved before a check that can still fail, a wrong key/prefix, a sign error, rounding changed, a forgotten update of one of several related records, a check applied to the wrong variable. Each change should be a few lines and located in the files listed under "Anchors" (or the functions named under "Mechanisms").

For EACH of the two changes deliver, under {root}/{prop}.out/<n>/ (n = 1, 2; create the directory):
  - patch.diff : `git diff` of the change against the worktree's HEAD (only non-test source files; must apply with `git apply`)
  - a demonstration: a Go test file (name it demo_test.go, and say in meta.json in which package directory it must be placed) or a small program, that FAILS with the change applied and PASSES without it. Write it in the style of the repository's existing keeper tests (look at the *_test.go files next to the code, e.g. testutil.BaseTestSuite). The demonstration file must NOT be part of patch.diff.
  - meta.json : {{"property": "{prop}", "summary": "...what was changed...", "needs": "...what specific sequence/input/state is needed for the violation to manifest...", "demo_pkg_dir": "x/.../keeper", "demo_run": "go test -vet=off -count=1 -run <TestName> ./x/.../keeper", "tests_run": "...which existing test packages you ran and that they passed..."}}

Procedure you must actually carry out (do not just claim): apply the change, `go build ./...`, run the existing tests of the touched packages (they must pass), run the demo (must fail), revert the change (`git checkout -- .`), run the demo again (must pass). Leave the worktree clean (reverted, demo file removed) when you are done. Keep total work reasonable: if a candidate turns out to fail existing tests, pick another. Report at the end, for each change: the patch, what the demo shows, and the exact commands you ran with their pass/fail outcome.
"""
open('%s/%s.prompt.txt' % (root, prop), 'w').write(t)
print('%s/%s.prompt.txt' % (root, prop))
