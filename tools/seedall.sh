#!/bin/bash
# run every seeded change under /verif/seeded (or the given dir) against the check of its property; prints a table and
# records in each meta.json what was run and which obligations fired ("checks_run", "caught_by")
src=${1:-/verif/seeded}
for d in $(ls -d $src/*/ 2>/dev/null | sort); do
  id=$(basename $d); prop=$(python3 -c "import json;print(json.load(open('$d/meta.json'))['property'])")
  extra=$(python3 -c "import json;print(' '.join(json.load(open('$d/meta.json')).get('also_check',[])))")
  out=$(/verif/tools/seedtest.sh $d/patch.diff $prop $extra 2>&1)
  r=$(echo "$out" | grep "^\[" | tr '\n' ' ')
  echo "$id: $r"
  SEED_OUT="$out" python3 - "$d/meta.json" "$prop $extra" <<'PY'
import json,os,re,sys
p=sys.argv[1]; m=json.load(open(p))
out=os.environ['SEED_OUT']
obls=sorted(set(re.sub(r'/\d+$','',x) for x in re.findall(r'obligation=(\S+)',out)))
m['checks_run']=['git -C /repo apply patch.diff; bin/exovc check -p %s -tier quick; git -C /repo apply -R patch.diff'%q for q in sys.argv[2].split()]
m['caught_by']=obls
m['detected']=bool(obls)
json.dump(m,open(p,'w'),indent=1)
PY
done
