#!/bin/bash
# run every seeded change under /verif/seeded (or /tmp/seeds) against the check of its property; prints a table
src=${1:-/verif/seeded}
for d in $(ls -d $src/*/ 2>/dev/null | sort); do
  id=$(basename $d); prop=$(python3 -c "import json;print(json.load(open('$d/meta.json'))['property'])")
  extra=$(python3 -c "import json;print(' '.join(json.load(open('$d/meta.json')).get('also_check',[])))")
  r=$(/verif/tools/seedtest.sh $d/patch.diff $prop $extra 2>&1 | grep "^\[" | tr '\n' ' ')
  echo "$id: $r"
done
