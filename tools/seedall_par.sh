#!/bin/bash
# seedall_par.sh [workers] : like seedall.sh, but runs the seeded changes in parallel, each worker on its own scratch
# worktree of /repo (VERIF_REPO) and its own scratch copy of the verifier's inputs (VERIF_DIR), so that /repo and the
# committed evidence are never touched. Writes checks_run / caught_by / detected into seeded/<id>/meta.json.
N=${1:-4}
src=/verif/seeded
cd /repo || exit 2
if [ -n "$(git status --porcelain)" ]; then echo "repo not clean"; exit 2; fi
ls -d $src/*/ | sort | grep -E "${SEED_FILTER:-.}" > /tmp/seedall_list.txt
worker() {
  k=$1
  rw=/tmp/seedall_rw$k; vw=/tmp/seedall_vw$k
  git -C /repo worktree remove --force $rw 2>/dev/null; rm -rf $rw $vw
  git -C /repo worktree add -q --detach $rw HEAD || exit 2
  mkdir -p $vw && cp -r /verif/spec /verif/lib /verif/baseline /verif/known_findings.json $vw/ && mkdir -p $vw/bin $vw/evidence && cp /verif/bin/exovc $vw/bin/
  i=0
  while read d; do
    i=$((i+1)); [ $((i % N)) -eq $((k % N)) ] || continue
    id=$(basename $d); prop=$(python3 -c "import json;print(json.load(open('$d/meta.json'))['property'])")
    extra=$(python3 -c "import json;print(' '.join(json.load(open('$d/meta.json')).get('also_check',[])))")
    (cd $rw && git checkout -q -- . && git clean -fdq && git apply $d/patch.diff) || { echo "$id: PATCH-DOES-NOT-APPLY"; continue; }
    out=""
    for p in $prop $extra; do
      o=$(cd $vw && VERIF_REPO=$rw VERIF_DIR=$vw bin/exovc check -p $p 2>&1); rc=$?
      out="$out$o"$'\n'"[$p] exit=$rc"$'\n'
    done
    nv=$(echo "$out" | grep -c '^VIOLATION')
    echo "$id: $(echo "$out" | grep '^\[' | tr '\n' ' ') violations=$nv"
    echo "$out" > $vw/seed_out.txt
    python3 - "$d/meta.json" "$prop $extra" "$vw/seed_out.txt" <<'PY'
import json,os,re,sys
p=sys.argv[1]; m=json.load(open(p))
out=open(sys.argv[3]).read()
obls=sorted(set(re.sub(r'/\d+$','',x) for x in re.findall(r'obligation=(\S+)',out)))
m['checks_run']=['git apply patch.diff (scratch worktree of /repo); bin/exovc check -p %s -tier quick'%q for q in sys.argv[2].split()]
m['caught_by']=obls
m['detected']=bool(obls)
json.dump(m,open(p,'w'),indent=1)
PY
  done < /tmp/seedall_list.txt
  git -C /repo worktree remove --force $rw; rm -rf $vw
}
for k in $(seq 1 $N); do worker $k & done
wait
git -C /repo worktree prune
python3 - <<'PY'
import json,glob
tot=0;det=0;miss=[]
for f in sorted(glob.glob('/verif/seeded/*/meta.json')):
    m=json.load(open(f)); tot+=1
    if m.get('detected'): det+=1
    else: miss.append(f.split('/')[-2])
print('seeded changes: %d, detected: %d, missed: %s'%(tot,det,miss))
PY
