#!/bin/bash
# usage: seedtest.sh <patch.diff> <prop> [<prop>...] : apply a seeded change to /repo, run the checks, revert.
patch=$1; shift
cd /repo || exit 2
if [ -n "$(git status --porcelain)" ]; then echo "repo not clean"; exit 2; fi
git apply "$patch" || { echo "patch does not apply"; exit 2; }
for p in "$@"; do
  # the evidence of a run on a modified tree must never replace the committed evidence of the unchanged tree
  cp /verif/evidence/$p.json /tmp/seedtest_evidence_$p.json 2>/dev/null
  out=$(cd /verif && bin/exovc check -p $p 2>&1)
  echo "[$p] exit=$? $(echo "$out" | grep -c '^VIOLATION') violations"
  echo "$out" | grep '^VIOLATION' | sed 's/replay=[^ ]* //' | cut -c1-220 | head -4
  [ -f /tmp/seedtest_evidence_$p.json ] && mv /tmp/seedtest_evidence_$p.json /verif/evidence/$p.json
done
git apply -R "$patch"
git status --porcelain | head -3
