package vc

import (
	"fmt"
	"go/ast"
	"go/types"
	"sort"
	"strings"
	"time"

	"golang.org/x/tools/go/ssa"
)

// FuncResult is the outcome of generating obligations for one function under contract.
type FuncResult struct {
	Func     string
	Contract *Contract
	Obls     []*Obligation
	Paths    int
	Returns  int
	CapHit   bool
	Bounded  bool
	Err      string // non-empty: function is outside the subset / stale contract
	Stale    bool
	Inlined  []string
	Havocs   []string
	Notes    []string
	// ClauseErrs: clauses (by label) that could not be interpreted on this code (an identifier they use no longer
	// exists, ...). Only those clauses are left undecided; the other clauses of the function are still checked.
	ClauseErrs map[string]string
}

// VerifyFunc generates all obligations of one function against its contract.
func (ex *Exec) VerifyFunc(ct *Contract) (res *FuncResult) {
	res = &FuncResult{Func: ct.Func, Contract: ct}
	fn := ex.W.Funcs[ct.Func]
	if fn == nil {
		res.Err = "contract target not found (renamed or deleted)"
		res.Stale = true
		return res
	}
	tc := &topCtx{fn: fn, contract: ct, oblCount: map[string]int{}, inlined: map[string]bool{}, havocs: map[string]bool{}, notes: map[string]bool{}}
	for _, g := range ct.Guards {
		tc.guardCalls = append(tc.guardCalls, g)
	}
	if len(ct.NoPanic) > 0 {
		tc.nopanic = ct.NoPanic[0].Label
	}
	defer func() {
		ex.side = nil
		if r := recover(); r != nil {
			if u, ok := r.(unsupported); ok {
				res.Err = u.Error()
				res.Obls = nil
				return
			}
			if se, ok := r.(specErr); ok {
				res.Err = "contract error: " + se.msg
				res.Obls = nil
				return
			}
			panic(r)
		}
		res.Obls = tc.obls
		res.Paths = tc.paths + 1
		res.CapHit = tc.capHit
		res.Bounded = tc.bounded
		res.Inlined = keys(tc.inlined)
		res.Havocs = keys(tc.havocs)
		res.Notes = keys(tc.notes)
		res.ClauseErrs = tc.clauseErrs
		for _, o := range res.Obls {
			o.Bounded = tc.bounded
		}
	}()
	ex.side = nil
	st := ex.NewState()
	vars := map[string]Val{}
	var args []Val
	for _, p := range fn.Params {
		// a store handle handed in (prefix.Store): some prefix of some module store of some live context
		if nt, ok := p.Type().(*types.Named); ok && nt.Obj().Pkg() != nil && nt.Obj().Pkg().Path() == "github.com/cosmos/cosmos-sdk/store/prefix" && nt.Obj().Name() == "Store" {
			cell := st.Fresh("p_"+p.Name()+"_cell", SInt)
			st.Assume(And(App(SBool, ">=", cell, IntLit(0)), App(SBool, "<", cell, T{S: "CELL0", Sort: SInt})))
			vv := &ViewVal{Cell: cell, Store: st.Fresh("p_"+p.Name()+"_store", SInt), Prefix: st.Fresh("p_"+p.Name()+"_pfx", SBytes)}
			args = append(args, vv)
			vars[p.Name()] = vv
			continue
		}
		v := st.FreshOf("p_"+p.Name(), p.Type())
		if v.Sort == SCtx {
			st.Assume(And(App(SBool, ">=", App(SInt, "ctx_cell", v), IntLit(0)), App(SBool, "<", App(SInt, "ctx_cell", v), T{S: "CELL0", Sort: SInt})))
		}
		args = append(args, v)
		vars[p.Name()] = v
	}
	// pointer parameters of the same pointee type are assumed pairwise non-aliased (checked at call sites)
	for i, p := range fn.Params {
		pt, ok := p.Type().Underlying().(*types.Pointer)
		if !ok || isBigIntPtr(p.Type()) {
			continue
		}
		for j := i + 1; j < len(fn.Params); j++ {
			q := fn.Params[j]
			qt, ok := q.Type().Underlying().(*types.Pointer)
			if !ok || !types.Identical(pt.Elem(), qt.Elem()) {
				continue
			}
			a, b := args[i].(T), args[j].(T) // by position: blank parameters share the name "_"
			st.Assume(Or(Eq(a, IntLit(0)), Not(Eq(a, b))))
		}
	}
	// positional names of the contract (`names a, b, _, c`): bound to the parameters whatever the code calls them
	if len(ct.Names) > 0 {
		off := 0
		if fn.Signature.Recv() != nil {
			off = 1
		}
		for i, n := range ct.Names {
			if n == "" || n == "_" || off+i >= len(fn.Params) {
				continue
			}
			vars[n] = args[off+i]
		}
	}
	fvCells := map[string]int{}
	for _, fv := range fn.FreeVars {
		// captured variable: a cell with unknown content
		et := fv.Type().(*types.Pointer).Elem()
		var content Val
		if _, isSig := et.Underlying().(*types.Signature); isSig {
			content = &OpaqueVal{Why: "captured func " + fv.Name()}
		} else {
			c := st.FreshOf("fv_"+fv.Name(), et)
			if c.Sort == SCtx {
				st.Assume(And(App(SBool, ">=", App(SInt, "ctx_cell", c), IntLit(0)), App(SBool, "<", App(SInt, "ctx_cell", c), T{S: "CELL0", Sort: SInt})))
			}
			content = c
		}
		id := st.NewCell(content)
		fvCells[fv.Name()] = id
		pv := &PtrVal{Kind: PLocal, Cell: id, Root: et}
		st.env[fv] = pv
		if ct, isT := content.(T); isT {
			vars[fv.Name()] = ct // contracts of closures speak about the captured variable's value at entry
		} else {
			vars[fv.Name()] = pv
		}
	}
	// parameters of the enclosing functions that this closure does not capture: its contract may still speak about
	// them (a changed body may simply have stopped using one) - they are arbitrary values the closure cannot change
	outer := map[string]Val{}
	for p := fn.Parent(); p != nil; p = p.Parent() {
		for _, pp := range p.Params {
			if _, ok := vars[pp.Name()]; ok || pp.Name() == "" || pp.Name() == "_" {
				continue
			}
			if _, isSig := pp.Type().Underlying().(*types.Signature); isSig {
				continue
			}
			c := st.FreshOf("outer_"+pp.Name(), pp.Type())
			vars[pp.Name()] = c
			outer[pp.Name()] = c
		}
	}
	// ... and likewise the named locals of the enclosing functions that the closure does not (or no longer) capture:
	// arbitrary values of their type (found through the debug references of go/ssa)
	for p := fn.Parent(); p != nil; p = p.Parent() {
		for _, blk := range p.Blocks {
			for _, ins := range blk.Instrs {
				var name string
				var typ types.Type
				switch d := ins.(type) {
				case *ssa.DebugRef:
					if id, ok := d.Expr.(*ast.Ident); ok && !d.IsAddr {
						name, typ = id.Name, d.X.Type()
					}
				case *ssa.Alloc:
					if d.Comment != "" {
						name, typ = d.Comment, d.Type().(*types.Pointer).Elem()
					}
				}
				if name == "" || name == "_" || typ == nil {
					continue
				}
				if _, ok := vars[name]; ok {
					continue
				}
				if _, isSig := typ.Underlying().(*types.Signature); isSig {
					continue
				}
				func() {
					defer func() { recover() }()
					c := st.FreshOf("outer_"+name, typ)
					vars[name] = c
					outer[name] = c
				}()
			}
		}
	}
	// requires
	envR := &SpecEnv{ex: ex, vars: vars, cur: st, pkg: ct.Pkg, bound: map[string]T{}}
	for _, rq := range ct.Requires {
		t, err := envR.TrBool(rq.Expr)
		if err != nil {
			sfail("requires %q of %s: %v", rq.Src, ShortName(ct.Func), err)
		}
		st.Assume(t)
	}
	tc.entry = st.Snapshot()
	tc.entryVars = vars
	tc.started = time.Now()
	// vacuity: the preconditions must be satisfiable
	tc.addObl(&Obligation{Name: ShortName(fn.String()) + "/cover:requires", Func: fn.String(), Kind: "cover", Cover: true,
		Decls: append([]string(nil), st.decls...), PC: append([]T(nil), st.pc...), Goal: Bool(false), Src: "requires are satisfiable"})
	_, rn := paramNames(fn.Signature, fn)
	fr := &frame{ex: ex, fn: fn, top: tc, contract: ct, stack: []string{fn.String()}}
	coverDone := map[int]int{}
	fr.ret = func(st2 *PState, results []Val, site int) {
		res.Returns++
		rv := map[string]Val{}
		for k, v := range vars {
			rv[k] = v
		}
		for i, r := range results {
			rv[rn[i]] = r
		}
		if len(results) == 1 {
			rv["result"] = results[0]
		}
		// captured variables of a closure under contract: final_<name> is the content at return
		for name, id := range fvCells {
			if c, ok := st2.cells[id]; ok {
				rv["final_"+name] = c
			}
		}
		for name, c := range outer {
			rv["final_"+name] = c
		}
		// loop-carried values as the path last saw them at each loop header: loop<n>_<name>. At a return that follows
		// the normal exit of loop n they satisfy the exit condition; at a return from inside the body they do not.
		for hb, ord := range fr.loops {
			for _, ins := range hb.Instrs {
				phi, ok := ins.(*ssa.Phi)
				if !ok {
					break
				}
				if v, ok := st2.env[phi]; ok && phi.Comment != "" {
					rv[fmt.Sprintf("loop%d_%s", ord, phi.Comment)] = v
				}
			}
		}
		// ghost variables of iterators / ranges alive at the return (function-internal clauses may use them)
		for name, res := range st2.callRes {
			if tv, ok := res.(*TupleVal); ok {
				for i, e := range tv.Elems {
					rv[fmt.Sprintf("res_%s_%d", name, i)] = e
				}
			} else {
				rv["res_"+name+"_0"] = res
			}
		}
		for _, it := range st2.Iters() {
			rv["it_idx"] = st2.cells[it.IdxID]
			rv["it_n"] = it.N
			rv["it_seq"] = it.Seq
		}
		env := (&SpecEnv{ex: ex, vars: rv, cur: st2, old: tc.entry, pkg: ct.Pkg, bound: map[string]T{}}).Goal()
		for _, en := range ct.Ensures {
			t, err := env.TrBool(en.Expr)
			if err != nil {
				tc.clauseErr(en.Label, fmt.Sprintf("ensures %q: %v", en.Src, err))
				continue
			}
			tc.addObl(&Obligation{Name: fmt.Sprintf("%s/%s/post:ret%d", ShortName(fn.String()), en.Label, site), Func: fn.String(), Label: en.Label,
				Kind: "post", Decls: append([]string(nil), st2.decls...), PC: append([]T(nil), st2.pc...), Goal: t, Notes: append([]string(nil), st2.notes...),
				Src: "ensures " + en.Src})
		}
		ex.frameObligations(tc, fr, st2, ct, rv, site)
		if coverDone[site] < 6 {
			coverDone[site]++
			tc.addObl(&Obligation{Name: fmt.Sprintf("%s/cover:ret%d", ShortName(fn.String()), site), Func: fn.String(), Kind: "cover", Cover: true,
				Decls: append([]string(nil), st2.decls...), PC: append([]T(nil), st2.pc...), Goal: Bool(false), Src: "return site reachable"})
		}
	}
	fr.pan = func(st2 *PState, why string) {
		if tc.nopanic != "" {
			tc.addObl(&Obligation{Name: ShortName(fn.String()) + "/" + tc.nopanic + "/nopanic:" + why, Func: fn.String(), Label: tc.nopanic,
				Kind: "nopanic", Decls: append([]string(nil), st2.decls...), PC: append([]T(nil), st2.pc...), Goal: Bool(false), Src: why + " reachable"})
		}
	}
	fr.execBody(st, args)
	return res
}

// frameObligations: whatever the contract does not list under modifies is unchanged at return.
func (ex *Exec) frameObligations(tc *topCtx, fr *frame, st *PState, ct *Contract, vars map[string]Val, site int) {
	if ct.Flags["noframe"] != "" {
		return
	}
	if ct.Flags["frame_assumed"] != "" {
		ex.Assumed["frame (modifies clause) of "+ShortName(ct.Func)+" is assumed, not proved"] = true
		return
	}
	fn := tc.fn
	modState := map[string]bool{}    // ctx param names with modifies state(ctx)
	modKeys := map[string][]string{} // ctx param -> list of get(...) items
	modPtr := map[string]bool{}
	modStores := map[string][]string{} // ctx param -> store names
	modTrace := false
	modHeaps := map[string]bool{}
	for _, m := range ct.Modifies {
		m = strings.TrimSpace(m)
		switch {
		case strings.HasPrefix(m, "*"):
			modPtr[strings.TrimSpace(m[1:])] = true
		case strings.HasPrefix(m, "state("):
			modState[strings.TrimSpace(m[6:len(m)-1])] = true
		case strings.HasPrefix(m, "get("):
			a := splitTop(m[4:len(m)-1], ',')
			modKeys[a[0]] = append(modKeys[a[0]], m)
		case strings.HasPrefix(m, "store("):
			a := splitTop(m[6:len(m)-1], ',')
			modStores[a[0]] = append(modStores[a[0]], a[1])
		case m == "trace":
			modTrace = true
		case strings.HasPrefix(m, "heap["):
			modHeaps[m[5:len(m)-1]] = true
		}
	}
	env := &SpecEnv{ex: ex, vars: vars, cur: st, old: tc.entry, pkg: ct.Pkg, bound: map[string]T{}}
	add := func(what string, goal T) {
		tc.addObl(&Obligation{Name: fmt.Sprintf("%s/frame/frame:ret%d", ShortName(fn.String()), site), Func: fn.String(), Label: "frame",
			Kind: "frame", Decls: append([]string(nil), st.decls...), PC: append([]T(nil), st.pc...), Goal: goal, Src: "frame: " + what + " unchanged"})
	}
	for _, p := range fn.Params {
		v := vars[p.Name()]
		t, isT := v.(T)
		if !isT {
			continue
		}
		if t.Sort == SCtx {
			if modState[p.Name()] {
				continue
			}
			cell := App(SInt, "ctx_cell", t)
			now := Select(st.kv, cell, SState)
			exp := Select(tc.entry.kv, cell, SState)
			for _, sn := range modStores[p.Name()] {
				e, err := ParseSpecExpr(sn)
				if err != nil {
					sfail("modifies store %s: %v", sn, err)
				}
				sid := env.storeArgSafe(e)
				exp = Store(exp, sid, Select(now, sid, SStore))
			}
			for _, item := range modKeys[p.Name()] {
				e, err := ParseSpecExpr(item)
				if err != nil {
					sfail("modifies %s: %v", item, err)
				}
				call := e.(*ast.CallExpr)
				// keys are evaluated in the entry state (old)
				envOld := *env
				envOld.cur = tc.entry
				sid := envOld.storeArgSafe(call.Args[1])
				key, err := envOld.Tr(call.Args[2])
				if err != nil {
					sfail("modifies %s: %v", item, err)
				}
				exp = stSet(exp, sid, key, stGet(now, sid, key))
			}
			add("state("+p.Name()+") outside modifies", Eq(now, exp))
			continue
		}
		if pt, ok := p.Type().Underlying().(*types.Pointer); ok && !modPtr[p.Name()] {
			if isBigIntPtr(p.Type()) {
				continue
			}
			havoced := false
			for _, n := range st.notes {
				if strings.HasPrefix(n, "havoc:") {
					havoced = true
				}
			}
			if havoced {
				continue // the heap was forgotten by an unmodelled call: nothing can be said about *p
			}
			name, _ := ex.Sorts.Heap(pt.Elem())
			h1, touched := st.heaps[name]
			if !touched {
				continue
			}
			h0, had := tc.entry.heaps[name]
			if !had || h0.S == h1.S {
				continue
			}
			es := ex.Sorts.SortOf(pt.Elem())
			add("*"+p.Name(), Eq(Select(h1, t, es), Select(h0, t, es)))
		}
	}
	if !modTrace && (st.traceN.S != tc.entry.traceN.S || st.trace.S != tc.entry.trace.S) {
		add("trace", And(Eq(st.traceN, tc.entry.traceN), Eq(st.trace, tc.entry.trace)))
	}
	_ = modHeaps
	// ghost counters: a function that changes one says so (modifies ghost(name), or its own bumps clause)
	declared := map[string]bool{}
	for _, m := range ct.Modifies {
		m = strings.TrimSpace(m)
		if strings.HasPrefix(m, "ghost(") && strings.HasSuffix(m, ")") {
			declared["GH_"+sanitize(strings.TrimSpace(m[6:len(m)-1]))] = true
		}
	}
	for _, b := range ct.Bumps {
		declared["GH_"+sanitize(b.Name)] = true
	}
	var gnames []string
	for name := range st.heaps {
		if strings.HasPrefix(name, "GH_") {
			gnames = append(gnames, name)
		}
	}
	sort.Strings(gnames)
	for _, name := range gnames {
		if declared[name] {
			continue
		}
		h0 := T{S: name + "_0", Sort: SInt}
		if st.heaps[name].S != h0.S {
			add("ghost counter "+strings.TrimPrefix(name, "GH_"), Eq(st.heaps[name], h0))
		}
	}
}

func keys(m map[string]bool) []string {
	var xs []string
	for k := range m {
		xs = append(xs, k)
	}
	sort.Strings(xs)
	return xs
}

// LemmaObligation builds the closed SMT goal of a lemma.
func (ex *Exec) LemmaObligations(l *Lemma) ([]*Obligation, error) {
	st := ex.NewState()
	vars := map[string]Val{}
	for _, p := range l.Params {
		f := strings.Fields(p)
		if len(f) != 2 {
			return nil, fmt.Errorf("lemma %s: bad parameter %q", l.Name, p)
		}
		// lemma variables get names that do not depend on the generator's fresh counter: the query text of a
		// lemma is then a function of the lemma and the spec functions only (stable proofs)
		v := T{S: "l_" + sanitize(f[0]), Sort: f[1]}
		st.decls = append(st.decls, fmt.Sprintf("(declare-const %s %s)", v.S, v.Sort))
		vars[f[0]] = v
	}
	nBase := len(st.pc)
	env := &SpecEnv{ex: ex, vars: vars, cur: st, bound: map[string]T{}}
	for _, h := range l.Hyps {
		t, err := env.TrBool(h.Expr)
		if err != nil {
			return nil, fmt.Errorf("lemma %s hyp %q: %v", l.Name, h.Src, err)
		}
		st.Assume(t)
	}
	g, err := env.TrBool(l.Goal.Expr)
	if err != nil {
		return nil, fmt.Errorf("lemma %s goal: %v", l.Name, err)
	}
	st.pc = append([]T(nil), st.pc[nBase:]...) // only the hypotheses (the state facts of NewState are irrelevant)
	return []*Obligation{
		{Name: "lemma:" + l.Name + "/" + l.Label + "/lemma", Func: "lemma:" + l.Name, Label: l.Label, Kind: "lemma", Decls: st.decls, PC: st.pc, Goal: g, Src: "goal " + l.Goal.Src},
		{Name: "lemma:" + l.Name + "/cover:hyps", Func: "lemma:" + l.Name, Label: "", Kind: "cover", Cover: true, Decls: st.decls, PC: st.pc, Goal: Bool(false), Src: "hypotheses satisfiable"},
	}, nil
}

var _ = ssa.BuilderMode(0)
