package vc

import (
	"fmt"
	"math/big"
	"os"
	"path/filepath"
	"sort"
	"strings"
)

func newBig(n int64) *big.Int { return big.NewInt(n) }

// FnSig is the signature of an SMT function declared in the prelude / spec files.
type FnSig struct {
	Name string
	Args []string
	Ret  string
}

// Prelude is the concatenation of /verif/spec/*.smt2 with its parsed signatures.
type Prelude struct {
	Text     string
	Sigs     map[string]*FnSig
	forms    []preludeForm
	declared map[string]bool // symbols introduced by declare-fun (uninterpreted: axioms may speak about them)
}

// preludeForm is one top-level command of the spec files with the symbols it introduces and mentions.
type preludeForm struct {
	text  string
	names []string
	atoms map[string]bool
}

func sxAtoms(s *sexpr, out map[string]bool) {
	if s.list == nil {
		if s.atom != "" {
			out[s.atom] = true
		}
		return
	}
	for _, c := range s.list {
		sxAtoms(c, out)
	}
}

// Slice returns the part of the prelude that the given SMT text depends on (transitively), in file order. Lemmas
// are emitted over this slice only, so that an edit to an unrelated spec function cannot perturb their proofs.
func (p *Prelude) Slice(text string) string {
	need := map[string]bool{}
	if sx, err := parseSexprs(text); err == nil {
		for _, s := range sx {
			sxAtoms(s, need)
		}
	}
	inc := make([]bool, len(p.forms))
	for changed := true; changed; {
		changed = false
		for i, f := range p.forms {
			if inc[i] {
				continue
			}
			if f.names == nil && strings.HasPrefix(f.text, "(assert") {
				// an axiom about declared spec functions: included as soon as one of the symbols it mentions is needed
				// and declared by an included form
				for a := range f.atoms {
					if need[a] && p.declared[a] {
						inc[i] = true
						changed = true
						for b := range f.atoms {
							need[b] = true
						}
						break
					}
				}
				continue
			}
			for _, n := range f.names {
				if need[n] {
					inc[i] = true
					changed = true
					for a := range f.atoms {
						need[a] = true
					}
					break
				}
			}
		}
	}
	var sb strings.Builder
	for i, f := range p.forms {
		if inc[i] {
			sb.WriteString(f.text)
			sb.WriteString("\n")
		}
	}
	return sb.String()
}

// LoadPrelude reads prelude.smt2 first and then every other *.smt2 in dir, in name order.
func LoadPrelude(dir string) (*Prelude, error) {
	files, _ := filepath.Glob(filepath.Join(dir, "*.smt2"))
	sort.Slice(files, func(i, j int) bool {
		bi, bj := filepath.Base(files[i]), filepath.Base(files[j])
		if bi == "prelude.smt2" {
			return true
		}
		if bj == "prelude.smt2" {
			return false
		}
		return bi < bj
	})
	p := &Prelude{Sigs: map[string]*FnSig{}}
	var sb strings.Builder
	for _, f := range files {
		b, err := os.ReadFile(f)
		if err != nil {
			return nil, err
		}
		sb.Write(b)
		sb.WriteString("\n")
	}
	p.Text = sb.String()
	sx, err := parseSexprs(p.Text)
	if err != nil {
		return nil, err
	}
	for _, s := range sx {
		if len(s.list) >= 2 {
			f := preludeForm{text: s.String(), atoms: map[string]bool{}}
			sxAtoms(s, f.atoms)
			switch s.list[0].atom {
			case "define-fun", "define-fun-rec", "declare-fun", "declare-const", "declare-sort":
				f.names = []string{s.list[1].atom}
				if s.list[0].atom == "declare-fun" {
					if p.declared == nil {
						p.declared = map[string]bool{}
					}
					p.declared[s.list[1].atom] = true
				}
			case "declare-datatypes":
				// introduces the sort names, constructors and accessors; depends on the field sorts
				deps := map[string]bool{}
				if len(s.list) >= 3 {
					for _, d := range s.list[1].list {
						if len(d.list) > 0 {
							f.names = append(f.names, d.list[0].atom)
						}
					}
					for _, dt := range s.list[2].list {
						for _, c := range dt.list {
							if c.atom != "" {
								f.names = append(f.names, c.atom)
								continue
							}
							if len(c.list) == 0 {
								continue
							}
							f.names = append(f.names, c.list[0].atom)
							for _, a := range c.list[1:] {
								if len(a.list) == 2 {
									f.names = append(f.names, a.list[0].atom)
									sxAtoms(a.list[1], deps)
								}
							}
						}
					}
				}
				f.atoms = deps
			default:
				f.names = nil
			}
			p.forms = append(p.forms, f)
		}
		if len(s.list) < 3 {
			continue
		}
		if len(s.list) < 4 && s.list[0].atom != "declare-datatypes" && s.list[0].atom != "declare-const" {
			continue
		}
		switch s.list[0].atom {
		case "define-fun", "define-fun-rec":
			sig := &FnSig{Name: s.list[1].atom, Ret: s.list[3].String()}
			for _, a := range s.list[2].list {
				sig.Args = append(sig.Args, a.list[1].String())
			}
			p.Sigs[sig.Name] = sig
		case "declare-fun":
			sig := &FnSig{Name: s.list[1].atom, Ret: s.list[3].String()}
			for _, a := range s.list[2].list {
				sig.Args = append(sig.Args, a.String())
			}
			p.Sigs[sig.Name] = sig
		case "declare-const":
			p.Sigs[s.list[1].atom] = &FnSig{Name: s.list[1].atom, Ret: s.list[2].String()}
		case "declare-datatypes":
			// ((Name 0)) (((ctor (acc Sort) ...) ...))
			if len(s.list) < 3 || len(s.list[1].list) != 1 {
				continue
			}
			dt := s.list[1].list[0].list[0].atom
			for _, c := range s.list[2].list[0].list {
				if c.atom != "" {
					p.Sigs[c.atom] = &FnSig{Name: c.atom, Ret: dt}
					continue
				}
				sig := &FnSig{Name: c.list[0].atom, Ret: dt}
				for _, a := range c.list[1:] {
					sig.Args = append(sig.Args, a.list[1].String())
					p.Sigs[a.list[0].atom] = &FnSig{Name: a.list[0].atom, Args: []string{dt}, Ret: a.list[1].String()}
					p.Sigs["is-"+c.list[0].atom] = &FnSig{Name: "(_ is " + c.list[0].atom + ")", Args: []string{dt}, Ret: SBool}
				}
				p.Sigs[sig.Name] = sig
				if len(c.list) == 1 {
					p.Sigs["is-"+c.list[0].atom] = &FnSig{Name: "(_ is " + c.list[0].atom + ")", Args: []string{dt}, Ret: SBool}
				}
			}
		}
	}
	return p, nil
}

type sexpr struct {
	atom string
	list []*sexpr
}

func (s *sexpr) String() string {
	if s.list == nil && s.atom != "" {
		return s.atom
	}
	var parts []string
	for _, x := range s.list {
		parts = append(parts, x.String())
	}
	return "(" + strings.Join(parts, " ") + ")"
}

func parseSexprs(src string) ([]*sexpr, error) {
	var out []*sexpr
	var stack []*sexpr
	i := 0
	for i < len(src) {
		c := src[i]
		switch {
		case c == ';':
			for i < len(src) && src[i] != '\n' {
				i++
			}
		case c == ' ' || c == '\t' || c == '\n' || c == '\r':
			i++
		case c == '(':
			stack = append(stack, &sexpr{list: []*sexpr{}})
			i++
		case c == ')':
			if len(stack) == 0 {
				return nil, fmt.Errorf("unbalanced ) at %d", i)
			}
			top := stack[len(stack)-1]
			stack = stack[:len(stack)-1]
			if len(stack) == 0 {
				out = append(out, top)
			} else {
				p := stack[len(stack)-1]
				p.list = append(p.list, top)
			}
			i++
		case c == '"':
			j := i + 1
			for j < len(src) && src[j] != '"' {
				j++
			}
			a := &sexpr{atom: src[i : j+1]}
			if len(stack) > 0 {
				p := stack[len(stack)-1]
				p.list = append(p.list, a)
			}
			i = j + 1
		case c == '|':
			j := i + 1
			for j < len(src) && src[j] != '|' {
				j++
			}
			a := &sexpr{atom: src[i : j+1]}
			if len(stack) > 0 {
				p := stack[len(stack)-1]
				p.list = append(p.list, a)
			}
			i = j + 1
		default:
			j := i
			for j < len(src) && !strings.ContainsRune(" \t\n\r();", rune(src[j])) {
				j++
			}
			a := &sexpr{atom: src[i:j]}
			if len(stack) > 0 {
				p := stack[len(stack)-1]
				p.list = append(p.list, a)
			}
			i = j
		}
	}
	if len(stack) != 0 {
		return nil, fmt.Errorf("unbalanced (")
	}
	return out, nil
}
