package vc

import (
	"fmt"
	"go/ast"
	"go/types"
	"os"
	"regexp"
	"sort"
	"strings"

	"golang.org/x/tools/go/ssa"
)

// GlobalFuncVal is a func value loaded from a package-level func variable (e.g. sdk.NewDecFromInt).
type GlobalFuncVal struct{ Name string }

type guardSpec struct {
	Callee string // qualified name (or suffix) of the effectful call
	Label  string
	Expr   Clause
}

// call dispatches one call site. k continues the path with the call's result.
func (fr *frame) call(st *PState, site ssa.Instruction, c *ssa.CallCommon, k0 func(*PState, Val)) {
	ex := fr.ex
	fr.curSite = site
	// remember the latest result of each callee (by bare name) on the path: guard clauses may refer to it
	cname := ""
	if c.IsInvoke() {
		cname = c.Method.Name()
	} else if f := c.StaticCallee(); f != nil {
		cname = f.Name()
	} else {
		// a call through a function-valued struct field (evm.Context.CanTransfer): known by the field's name
		fieldOf := func(xt types.Type, i int) string {
			if p, ok := xt.Underlying().(*types.Pointer); ok {
				xt = p.Elem()
			}
			if stt, ok := xt.Underlying().(*types.Struct); ok && i < stt.NumFields() {
				return stt.Field(i).Name()
			}
			return ""
		}
		switch v := c.Value.(type) {
		case *ssa.Field:
			cname = fieldOf(v.X.Type(), v.Field)
		case *ssa.UnOp:
			if fa, ok := v.X.(*ssa.FieldAddr); ok {
				cname = fieldOf(fa.X.Type(), fa.Field)
			}
		}
	}
	k := k0
	if cname != "" && fr.depth == 0 {
		k = func(st2 *PState, res Val) {
			if st2.callRes == nil {
				st2.callRes = map[string]Val{}
			}
			st2.callRes[cname] = res
			k0(st2, res)
		}
	}
	// builtins
	if b, ok := c.Value.(*ssa.Builtin); ok {
		k(st, fr.builtin(st, b, c, site))
		return
	}
	var args []Val
	if c.IsInvoke() {
		recv := fr.val(st, c.Value)
		for _, a := range c.Args {
			args = append(args, fr.val(st, a))
		}
		fr.invoke(st, c, recv, args, k)
		return
	}
	for _, a := range c.Args {
		args = append(args, fr.val(st, a))
	}
	fr.curSSAArgs = c.Args
	if f := c.StaticCallee(); f != nil {
		if mc, ok := c.Value.(*ssa.MakeClosure); ok {
			cv := fr.val(st, mc).(*ClosureVal)
			fr.callClosure(st, cv, args, k)
			return
		}
		fr.callFunction(st, f.String(), f, c.Signature(), args, k)
		return
	}
	// dynamic call through a func value
	fv := fr.val(st, c.Value)
	switch v := fv.(type) {
	case *ClosureVal:
		fr.callClosure(st, v, args, k)
	case *FuncVal:
		fr.callFunction(st, v.Fn.String(), v.Fn, c.Signature(), args, k)
	case *WriteCacheVal:
		// guard clauses "before writeCache requires ..." apply to the commit of a cache context
		if fr.depth == 0 {
			fr.checkGuards(st, "writeCache", c.Signature(), args)
		}
		// parent state := child state
		child := Select(st.kv, v.Child, SState)
		st.kv = st.Name("kv", Store(st.kv, v.Parent, child))
		k(st, T{S: "unit", Sort: SUnit})
	case *GlobalFuncVal:
		fr.callFunction(st, v.Name, nil, c.Signature(), args, k)
	default:
		// callback parameter with an (assumed) callback contract "<function>#<parameter>": the contract says what any
		// function value passed here may do; guard clauses "before #<parameter> requires ..." apply
		if p, isParam := c.Value.(*ssa.Parameter); isParam && fr.depth == 0 {
			if ct, ok := ex.CS.ByFunc[fr.fn.String()+"#"+p.Name()]; ok {
				fr.checkGuards(st, fr.fn.String()+"#"+p.Name(), c.Signature(), args)
				fr.applyContract(st, ct, c.Signature(), nil, args, k)
				return
			}
		}
		fr.havocCall(st, "dynamic call "+c.Value.Name()+" in "+ShortName(fr.fn.String()), c.Signature(), args, k)
	}
}

func (fr *frame) callClosure(st *PState, cv *ClosureVal, args []Val, k func(*PState, Val)) {
	fn := cv.Fn
	if fr.depth >= fr.ex.Opts.MaxInline+4 {
		fr.havocCall(st, "closure inline depth "+fn.String(), fn.Signature, args, k)
		return
	}
	// a closure with its own contract (callbacks verified separately) uses the contract
	if ct, ok := fr.ex.CS.ByFunc[fn.String()]; ok && ct.Flags["inline"] == "" && fr.top.fn != fn {
		// bind free variables for the contract's view: contracts of closures speak about params only
		fr.applyContract(st, ct, fn.Signature, fn, args, k)
		return
	}
	for i, fvv := range fn.FreeVars {
		st.env[fvv] = cv.Bind[i]
	}
	fr.inline(st, fn, args, k)
}

func (fr *frame) inline(st *PState, fn *ssa.Function, args []Val, k func(*PState, Val)) {
	for _, s := range fr.stack {
		if s == fn.String() {
			fr.havocCall(st, "recursive call "+fn.String(), fn.Signature, args, k)
			return
		}
	}
	// run the callee collecting its outcomes; if it leaves the supported subset, fall back to a havoc of the
	// call (sound over-approximation) instead of giving up on the whole function
	type outcome struct {
		st  *PState
		res Val
	}
	var outs []outcome
	var pans []struct {
		st  *PState
		why string
	}
	backup := st.Clone()
	nObls := len(fr.top.obls)
	nf := &frame{ex: fr.ex, fn: fn, depth: fr.depth + 1, top: fr.top, stack: append(append([]string(nil), fr.stack...), fn.String())}
	nf.ret = func(st2 *PState, results []Val, site int) {
		switch len(results) {
		case 0:
			outs = append(outs, outcome{st2, T{S: "unit", Sort: SUnit}})
		case 1:
			outs = append(outs, outcome{st2, results[0]})
		default:
			outs = append(outs, outcome{st2, &TupleVal{Elems: results}})
		}
	}
	nf.pan = func(st2 *PState, why string) {
		pans = append(pans, struct {
			st  *PState
			why string
		}{st2, why})
	}
	failed := ""
	wasBounded := fr.top.bounded
	func() {
		defer func() {
			if r := recover(); r != nil {
				if u, ok := r.(unsupported); ok {
					failed = u.why
					return
				}
				panic(r)
			}
		}()
		nf.execBody(st, args)
	}()
	if failed != "" {
		fr.top.obls = fr.top.obls[:nObls]
		fr.top.bounded = wasBounded // the abandoned attempt's unrolled loops are not part of the result
		fr.top.notes["callee "+ShortName(fn.String())+" left the subset ("+failed+"): call havoced"] = true
		fr.havocCall(backup, fn.String(), fn.Signature, args, k)
		return
	}
	fr.top.inlined[ShortName(fn.String())] = true
	for _, p := range pans {
		fr.pan(p.st, p.why)
	}
	for _, o := range outs {
		k(o.st, o.res)
	}
}

// callFunction resolves a statically known callee by qualified name.
func (fr *frame) callFunction(st *PState, qname string, fn *ssa.Function, sig *types.Signature, args []Val, k func(*PState, Val)) {
	ex := fr.ex
	// guard obligations attached to this callee by the top-level contract
	fr.checkGuards(st, qname, sig, args)
	if m, ok := libModels[qname]; ok {
		lc := &libCall{fr: fr, st: st, args: args, sig: sig, name: qname, ssaArgs: fr.curSSAArgs}
		if res, handled := m(lc); handled {
			ex.Assumed["lib:"+qname] = true
			k(st, res)
			return
		}
	}
	if ct, ok := ex.CS.ByFunc[qname]; ok && ct.Flags["inline"] == "" {
		fr.applyContract(st, ct, sig, fn, args, k)
		return
	}
	if isEffectFree(qname) {
		k(st, fr.pureResults(st, sig, qname, args))
		return
	}
	if fn == nil {
		fn = ex.W.Funcs[qname]
	}
	if pv := fr.top.contract.Flags["pure"]; pv != "" {
		for _, sub := range strings.Split(pv, ",") {
			if sub = strings.TrimSpace(sub); sub != "" && strings.Contains(qname, sub) {
				ex.Assumed["assumed pure (no effect on chain state or heap): "+ShortName(qname)] = true
				k(st, fr.freshResults(st, sig, qname))
				return
			}
		}
	}
	if hv := fr.top.contract.Flags["havoc"]; hv != "" {
		for _, sub := range strings.Split(hv, ",") {
			if sub = strings.TrimSpace(sub); sub != "" && strings.Contains(qname, sub) {
				fr.havocCall(st, qname, sig, args, k)
				return
			}
		}
	}
	if fn != nil && fn.Blocks != nil && fr.depth < ex.Opts.MaxInline {
		fr.inline(st, fn, args, k)
		return
	}
	fr.havocCall(st, qname, sig, args, k)
}

func (fr *frame) freshResults(st *PState, sig *types.Signature, hint string) Val {
	rs := sig.Results()
	h := hint
	if i := strings.LastIndexAny(h, "./)"); i >= 0 {
		h = h[i+1:]
	}
	switch rs.Len() {
	case 0:
		return T{S: "unit", Sort: SUnit}
	case 1:
		return st.FreshOf("r_"+h, rs.At(0).Type())
	}
	tv := &TupleVal{}
	for i := 0; i < rs.Len(); i++ {
		tv.Elems = append(tv.Elems, st.FreshOf(fmt.Sprintf("r%d_%s", i, h), rs.At(i).Type()))
	}
	return tv
}

// havocCall: unknown callee — fresh results and (if it could touch state) havoc of the chain state and heaps.
func (fr *frame) havocCall(st *PState, name string, sig *types.Signature, args []Val, k func(*PState, Val)) {
	touches := false
	for _, a := range args {
		switch a := a.(type) {
		case T:
			if a.Sort == SCtx || a.Sort == SSlice {
				touches = true
			}
			if a.Go != nil {
				switch a.Go.Underlying().(type) {
				case *types.Pointer, *types.Map, *types.Struct, *types.Interface:
					touches = true
				}
			}
		case *PtrVal, *ViewVal, *ClosureVal, *IfaceVal, *IterVal:
			touches = true
		}
	}
	fr.top.havocs[ShortName(name)] = true
	// A callee reaches chain state only through a context (or a store view, iterator, closure or interface value that
	// may hold one) it is handed. When the only such handles among the arguments are sdk.Context values, only the state
	// of THOSE contexts can change - in particular a callee working on a cache context cannot touch its parent.
	var ctxs []T
	onlyCtx := true
	for i, a := range args {
		if i == 0 && (strings.HasPrefix(name, "invoke ") || sig.Recv() != nil) {
			// the receiver of a method (a keeper, a hooks wrapper, a value object): holds store keys, not contexts
			fr.ex.Assumed["receivers of keeper / hook interfaces hold no sdk.Context (a havoced interface call changes only the state of the contexts it is handed)"] = true
			continue
		}
		// static type of the parameter this argument is passed as
		var pt types.Type
		off := 0
		if sig.Recv() != nil {
			off = 1
			if i == 0 {
				pt = sig.Recv().Type()
			}
		}
		if pt == nil && i-off >= 0 && i-off < sig.Params().Len() {
			pt = sig.Params().At(i - off).Type()
		}
		switch a := a.(type) {
		case T:
			if a.Sort == SCtx {
				ctxs = append(ctxs, a)
			} else if a.Sort == SIface {
				if !ctxFreeInterface(pt) {
					onlyCtx = false
				}
			} else if a.Go != nil {
				if _, isIface := a.Go.Underlying().(*types.Interface); isIface && !ctxFreeInterface(pt) {
					onlyCtx = false
				}
			}
		case *IfaceVal:
			if !ctxFreeInterface(pt) {
				onlyCtx = false
			}
		case *ViewVal, *ClosureVal, *IterVal, *WriteCacheVal, *FuncVal:
			onlyCtx = false
		}
	}
	if os.Getenv("VERIF_DEBUG_HAVOC") != "" {
		fmt.Fprintf(os.Stderr, "havocCall %s touches=%v onlyCtx=%v ctxs=%d args=%d\n", name, touches, onlyCtx, len(ctxs), len(args))
		for i, a := range args {
			if t, ok := a.(T); ok {
				fmt.Fprintf(os.Stderr, "   arg%d T sort=%s go=%v\n", i, t.Sort, t.Go)
			} else {
				fmt.Fprintf(os.Stderr, "   arg%d %T\n", i, a)
			}
		}
	}
	if touches {
		if onlyCtx && len(ctxs) > 0 {
			for _, c := range ctxs {
				st.kv = st.Name("kv", Store(st.kv, App(SInt, "ctx_cell", c), st.Fresh("state_havoc", SState)))
			}
		} else {
			st.kv = st.Fresh("kv_havoc", SKV)
		}
		for _, hn := range st.HeapNames() {
			st.heaps[hn] = st.Fresh(hn+"_havoc", st.heaps[hn].Sort)
		}
		for _, a := range args {
			if p, ok := a.(*PtrVal); ok && p.Kind == PLocal {
				if _, fwd := st.cells[p.Cell].(*fwdCell); !fwd {
					st.cells[p.Cell] = st.FreshOf("cell_havoc", p.Root)
				}
			}
		}
		st.Note("havoc: %s", ShortName(name))
	}
	k(st, fr.freshResults(st, sig, name))
}

var effectFreePrefixes = []string{
	"(github.com/cosmos/cosmos-sdk/types.DecCoins).", "(github.com/cosmos/cosmos-sdk/types.DecCoin).", "(github.com/cosmos/cosmos-sdk/types.Coins).",
	"github.com/cosmos/cosmos-sdk/types/address.",
	"fmt.", "errors.", "strings.", "strconv.", "log.", "(github.com/cometbft/cometbft/libs/log.Logger)",
	"github.com/cosmos/cosmos-sdk/telemetry.", "github.com/armon/go-metrics.",
	"github.com/ethereum/go-ethereum/common/hexutil.", "github.com/ethereum/go-ethereum/common.",
	"(github.com/ethereum/go-ethereum/common.Address).", "(github.com/ethereum/go-ethereum/common.Hash).",
	"(*github.com/cosmos/cosmos-sdk/types.EventManager).", "github.com/cosmos/cosmos-sdk/types.NewEvent", "github.com/cosmos/cosmos-sdk/types.NewAttribute",
	"(github.com/cosmos/cosmos-sdk/types.AccAddress).", "(github.com/cosmos/cosmos-sdk/types.ValAddress).", "(github.com/cosmos/cosmos-sdk/types.ConsAddress).",
	"github.com/cosmos/cosmos-sdk/types.AccAddressFromBech32", "github.com/cosmos/cosmos-sdk/types.ValAddressFromBech32", "github.com/cosmos/cosmos-sdk/types.ConsAddressFromBech32",
	"github.com/cosmos/cosmos-sdk/types.AccAddressFromHexUnsafe", "github.com/cosmos/cosmos-sdk/types.MustAccAddressFromBech32",
	"(cosmossdk.io/math.Int).String", "(cosmossdk.io/math.LegacyDec).String", "(*math/big.Int).String", "(time.Time).String", "(time.Time).Format",
	"(time.Duration).String", "encoding/hex.", "encoding/binary.", "bytes.", "sort.Strings", "unicode.", "math/bits.",
	"(github.com/cosmos/cosmos-sdk/types.Coin).String", "(github.com/cosmos/cosmos-sdk/types.Coins).String", "(github.com/cosmos/cosmos-sdk/types.DecCoins).String",
	"github.com/ethereum/go-ethereum/crypto.Keccak256",
	"github.com/cosmos/cosmos-sdk/types.NewCoin", "github.com/cosmos/cosmos-sdk/types.NewCoins", "github.com/cosmos/cosmos-sdk/types.NewDecCoin",
	"github.com/cosmos/cosmos-sdk/types.NewDecCoins", "github.com/cosmos/cosmos-sdk/types.NewInt64Coin",
	"github.com/cosmos/cosmos-sdk/x/auth/types.NewModuleAddress",
}

func isEffectFree(q string) bool {
	for _, p := range effectFreePrefixes {
		if strings.HasPrefix(q, p) {
			return true
		}
	}
	// generated String()/Get* methods of proto types and error formatting
	if strings.HasSuffix(q, ").String") || strings.HasSuffix(q, ").Error") {
		return true
	}
	return false
}

// paramNames returns receiver + parameter names and result names of a signature.
func paramNames(sig *types.Signature, fn *ssa.Function) (params []string, results []string) {
	if fn != nil && len(fn.Params) > 0 {
		for _, p := range fn.Params {
			params = append(params, p.Name())
		}
	} else {
		if sig.Recv() != nil {
			params = append(params, sig.Recv().Name())
		}
		for i := 0; i < sig.Params().Len(); i++ {
			params = append(params, sig.Params().At(i).Name())
		}
	}
	for i := 0; i < sig.Results().Len(); i++ {
		n := sig.Results().At(i).Name()
		if n == "" || n == "_" {
			n = fmt.Sprintf("r%d", i)
			if types.TypeString(sig.Results().At(i).Type(), nil) == "error" && i == sig.Results().Len()-1 {
				n = "err"
			}
		}
		results = append(results, n)
	}
	return
}

// applyContract uses a callee's contract at a call site: assert requires, havoc modifies, assume ensures.
func (fr *frame) applyContract(st *PState, ct *Contract, sig *types.Signature, fn *ssa.Function, args []Val, k func(*PState, Val)) {
	ex := fr.ex
	tc := fr.top
	pn, rn := paramNames(sig, fn)
	vars := map[string]Val{}
	for i, n := range pn {
		if i < len(args) && n != "" && n != "_" {
			vars[n] = args[i]
		}
	}
	old := st.Snapshot()
	env := &SpecEnv{ex: ex, vars: vars, cur: st, old: nil, pkg: ct.Pkg, bound: map[string]T{}}
	if ct.Flags["assumed"] != "" {
		ex.Assumed["assumed-contract:"+ShortName(ct.Func)] = true
	}
	for _, rq := range ct.Requires {
		t, err := env.TrBool(rq.Expr)
		if err != nil {
			bail("requires of %s: %v", ShortName(ct.Func), err)
		}
		o := &Obligation{Name: ShortName(tc.fn.String()) + "/pre:" + ShortName(ct.Func), Func: tc.fn.String(), Label: "",
			Kind: "pre", Decls: append([]string(nil), st.decls...), PC: append([]T(nil), st.pc...), Goal: t,
			Src: "requires " + rq.Src + " of " + ShortName(ct.Func)}
		tc.addObl(o)
		st.Assume(t)
	}
	fr.checkNoAlias(st, ct, sig, args)
	// havoc the frame
	for _, m := range ct.Modifies {
		fr.havocModifies(st, env, m, ct)
	}
	// ghost counters
	for _, b := range ct.Bumps {
		t, err := env.Tr(b.By.Expr)
		if err != nil {
			bail("bumps of %s: %v", ShortName(ct.Func), err)
		}
		if t.Sort != SInt {
			bail("bumps of %s: expected Int, got %s", ShortName(ct.Func), t.Sort)
		}
		st.SetGhost(b.Name, st.Name("gh", App(SInt, "+", st.Ghost(b.Name), t)))
	}
	// ghost events
	for _, em := range ct.Emits {
		t, err := env.Tr(em.Expr)
		if err != nil {
			bail("emits of %s: %v", ShortName(ct.Func), err)
		}
		st.trace = st.Name("trace", Store(st.trace, st.traceN, t))
		st.traceN = st.Name("traceN", App(SInt, "+", st.traceN, IntLit(1)))
	}
	// results
	var results []Val
	for i := 0; i < sig.Results().Len(); i++ {
		r := st.FreshOf("r_"+rn[i], sig.Results().At(i).Type())
		results = append(results, r)
		vars[rn[i]] = r
	}
	if len(results) == 1 {
		vars["result"] = results[0]
	}
	env2 := &SpecEnv{ex: ex, vars: vars, cur: st, old: old, pkg: ct.Pkg, bound: map[string]T{}}
	for _, en := range ct.Ensures {
		if internalGhostRE.MatchString(en.Src) {
			// a clause about calls, iterators or loops INSIDE the callee (res_*, it_*, loop<n>_*, defined(...)): it is
			// proved for the callee and says nothing a caller can use - in particular `defined(res_X_0)` must not be
			// evaluated against the caller's own call history
			continue
		}
		t, err := env2.TrBool(en.Expr)
		if err != nil {
			if strings.Contains(err.Error(), "unknown identifier it_") || strings.Contains(err.Error(), "unknown identifier res_") {
				continue // clause about the callee's internal iterator ghost: not visible to callers
			}
			bail("ensures[%s] of %s: %v", en.Label, ShortName(ct.Func), err)
		}
		st.Assume(t)
	}
	switch len(results) {
	case 0:
		k(st, T{S: "unit", Sort: SUnit})
	case 1:
		k(st, results[0])
	default:
		k(st, &TupleVal{Elems: results})
	}
}

var internalGhostRE = regexp.MustCompile(`\b(res_[A-Za-z_0-9]+|it_(idx|n|seq)|loop[0-9]+_[A-Za-z_0-9]+)\b`)

// havocModifies havocs one item of a modifies clause at a call site.
//
//	*p                      pointee of pointer parameter p
//	state(ctx)              the whole State of ctx's cell
//	get(ctx, "store", key)  one key
//	trace                   the ghost event trace
//	heap[T]                 the heap of pointee type T
func (fr *frame) havocModifies(st *PState, env *SpecEnv, item string, ct *Contract) {
	ex := fr.ex
	item = strings.TrimSpace(item)
	switch {
	case item == "":
		return
	case strings.HasPrefix(item, "ghost(") && strings.HasSuffix(item, ")"):
		name := strings.TrimSpace(item[6 : len(item)-1])
		st.SetGhost(name, st.Fresh("gh_"+sanitize(name), SInt))
	case item == "trace":
		st.trace = st.Fresh("trace", "(Array Int Ev)")
		n := st.Fresh("traceN", SInt)
		st.Assume(App(SBool, ">=", n, st.traceN))
		st.traceN = n
	case strings.HasPrefix(item, "*"):
		name := strings.TrimSpace(item[1:])
		v, ok := env.vars[name]
		if !ok {
			bail("modifies %s: unknown parameter in contract of %s", item, ShortName(ct.Func))
		}
		switch p := v.(type) {
		case *PtrVal:
			st.StorePtr(p, st.FreshOf("mod_"+name, p.ElemType()))
		case T:
			pt, ok := p.Go.Underlying().(*types.Pointer)
			if !ok {
				bail("modifies %s: not a pointer", item)
			}
			st.StorePtr(&PtrVal{Kind: PHeap, Ref: p, Root: pt.Elem()}, st.FreshOf("mod_"+name, pt.Elem()))
		default:
			bail("modifies %s: unsupported argument %T", item, v)
		}
	case strings.HasPrefix(item, "state("):
		e, err := ParseSpecExpr(item[len("state(") : len(item)-1])
		if err != nil {
			bail("modifies %s: %v", item, err)
		}
		c, err := env.Tr(e)
		if err != nil {
			bail("modifies %s: %v", item, err)
		}
		cell := c
		if c.Sort == SCtx {
			cell = App(SInt, "ctx_cell", c)
		}
		st.kv = st.Name("kv", Store(st.kv, cell, st.Fresh("state_mod", SState)))
	case strings.HasPrefix(item, "get("):
		e, err := ParseSpecExpr(item)
		if err != nil {
			bail("modifies %s: %v", item, err)
		}
		t, err := env.Tr(e)
		if err != nil {
			bail("modifies %s: %v", item, err)
		}
		// t == (select (select kv cell) sk): rebuild the update
		call := e.(*ast.CallExpr)
		c, _ := env.Tr(call.Args[0])
		cell := c
		if c.Sort == SCtx {
			cell = App(SInt, "ctx_cell", c)
		}
		sid := env.storeArgSafe(call.Args[1])
		key, _ := env.Tr(call.Args[2])
		_ = t
		state := Select(st.kv, cell, SState)
		st.kv = st.Name("kv", Store(st.kv, cell, stSet(state, sid, key, st.Fresh("val_mod", SBytes))))
	case strings.HasPrefix(item, "store("):
		// store(ctx, "name"): the whole module store
		e, err := ParseSpecExpr(item)
		if err != nil {
			bail("modifies %s: %v", item, err)
		}
		call := e.(*ast.CallExpr)
		c, err := env.Tr(call.Args[0])
		if err != nil {
			bail("modifies %s: %v", item, err)
		}
		cell := c
		if c.Sort == SCtx {
			cell = App(SInt, "ctx_cell", c)
		}
		sid := env.storeArgSafe(call.Args[1])
		state := Select(st.kv, cell, SState)
		st.kv = st.Name("kv", Store(st.kv, cell, Store(state, sid, st.Fresh("store_mod", SStore))))
	case strings.HasPrefix(item, "heap["):
		tn := strings.Trim(item[len("heap["):len(item)-1], "\"")
		gt := ex.LookupType(tn)
		if gt == nil {
			bail("modifies %s: unknown type", item)
		}
		name, h := st.Heap(gt)
		st.SetHeap(name, st.Fresh(name+"_mod", h.Sort))
	default:
		bail("modifies %s: unsupported item in contract of %s", item, ShortName(ct.Func))
	}
}

func (e *SpecEnv) storeArgSafe(x ast.Expr) (t T) {
	defer func() {
		if r := recover(); r != nil {
			if se, ok := r.(specErr); ok {
				bail("%s", se.msg)
			}
			panic(r)
		}
	}()
	return e.storeArg(x)
}

// checkGuards emits guard obligations for `before <callee> requires G` items of the top contract.
func (fr *frame) checkGuards(st *PState, qname string, sig *types.Signature, args []Val) {
	tc := fr.top
	for _, g := range tc.guardCalls {
		if !(qname == g.Callee || strings.HasSuffix(qname, g.Callee)) {
			continue
		}
		vars := map[string]Val{}
		for k, v := range tc.entryVars {
			vars[k] = v
		}
		pn, _ := paramNames(sig, nil)
		for i, n := range pn {
			if i < len(args) {
				vars["arg_"+n] = args[i]
				vars[fmt.Sprintf("arg%d", i)] = args[i]
			}
		}
		for name, res := range st.callRes {
			if tv, ok := res.(*TupleVal); ok {
				for i, e := range tv.Elems {
					vars[fmt.Sprintf("res_%s_%d", name, i)] = e
				}
			} else {
				vars["res_"+name+"_0"] = res
			}
		}
		// plain locals of the function under contract as they stand at the call site (loop variables, copies)
		if fr.depth == 0 && fr.curSite != nil && fr.curSite.Parent() == fr.fn {
			blk := fr.curSite.Block()
			at := len(blk.Instrs)
			for i, ins := range blk.Instrs {
				if ins == fr.curSite {
					at = i
				}
			}
			for name, v := range fr.namedLocals(st, blk, at) {
				if _, taken := vars[name]; !taken {
					vars[name] = v
				}
			}
			// address-taken named locals of the function (structs decoded into, slices captured by closures)
			for _, b := range fr.fn.Blocks {
				for _, ins := range b.Instrs {
					if a, ok := ins.(*ssa.Alloc); ok && a.Comment != "" {
						if _, taken := vars[a.Comment]; taken {
							continue
						}
						if pv, ok := st.env[a].(*PtrVal); ok {
							func() {
								defer func() { recover() }()
								vars[a.Comment] = st.LoadPtr(pv)
							}()
						}
					}
				}
			}
			// loop-carried values of the loops the call site sits in (rangeindex, counters), innermost first
			type encl struct {
				h    *ssa.BasicBlock
				size int
			}
			var outs []encl
			for h, body := range fr.loopBody {
				if h == blk || body[blk] {
					outs = append(outs, encl{h, len(body)})
				}
			}
			sort.Slice(outs, func(i, j int) bool {
				if outs[i].size != outs[j].size {
					return outs[i].size < outs[j].size
				}
				return outs[i].h.Index < outs[j].h.Index
			})
			for k, o := range outs {
				pfx := ""
				if k == 1 {
					pfx = "outer_"
				} else if k > 1 {
					pfx = fmt.Sprintf("outer%d_", k)
				}
				n := 0
				for _, ins := range o.h.Instrs {
					phi, ok := ins.(*ssa.Phi)
					if !ok {
						break
					}
					n++
					if v, ok := st.env[phi]; ok {
						if phi.Comment != "" {
							if _, taken := vars[pfx+phi.Comment]; !taken {
								vars[pfx+phi.Comment] = v
							}
						}
						// by position, whatever the variable is called
						if _, taken := vars[fmt.Sprintf("%sphi%d", pfx, n)]; !taken {
							vars[fmt.Sprintf("%sphi%d", pfx, n)] = v
						}
					}
				}
			}
		}
		env := (&SpecEnv{ex: fr.ex, vars: vars, cur: st, old: tc.entry, pkg: tc.contract.Pkg, bound: map[string]T{}}).Goal()
		t, err := env.TrBool(g.Expr.Expr)
		if err != nil {
			tc.clauseErr(g.Label, fmt.Sprintf("guard before %s: %v", shortCallee(qname), err))
			continue
		}
		o := &Obligation{Name: ShortName(tc.fn.String()) + "/" + g.Label + "/guard:" + shortCallee(qname), Func: tc.fn.String(), Label: g.Label,
			Kind: "guard", Decls: append([]string(nil), st.decls...), PC: append([]T(nil), st.pc...), Goal: t,
			Src: "before " + shortCallee(qname) + " requires " + g.Expr.Src}
		tc.addObl(o)
	}
}

func shortCallee(q string) string {
	q = ShortName(q)
	return q
}

// checkNoAlias discharges the callee's assumption that pointer parameters of equal pointee type do not alias.
func (fr *frame) checkNoAlias(st *PState, ct *Contract, sig *types.Signature, args []Val) {
	tc := fr.top
	var ptypes []types.Type
	if sig.Recv() != nil {
		ptypes = append(ptypes, sig.Recv().Type())
	}
	for i := 0; i < sig.Params().Len(); i++ {
		ptypes = append(ptypes, sig.Params().At(i).Type())
	}
	for i := range ptypes {
		pi, ok := ptypes[i].Underlying().(*types.Pointer)
		if !ok || i >= len(args) || isBigIntPtr(ptypes[i]) {
			continue
		}
		for j := i + 1; j < len(ptypes) && j < len(args); j++ {
			pj, ok := ptypes[j].Underlying().(*types.Pointer)
			if !ok || !types.Identical(pi.Elem(), pj.Elem()) {
				continue
			}
			var goal T
			a, aok := args[i].(*PtrVal)
			b, bok := args[j].(*PtrVal)
			switch {
			case aok && bok:
				if a.Kind != b.Kind {
					continue
				}
				if a.Kind == PLocal && (a.Cell != b.Cell || !samePath(a.Path, b.Path)) {
					continue
				}
				if a.Kind == PHeap && !samePath(a.Path, b.Path) {
					continue
				}
				if a.Kind == PHeap {
					goal = Not(Eq(a.Ref, b.Ref))
				} else {
					goal = Bool(false)
				}
			case aok != bok:
				continue // a local/interior pointer never equals an incoming reference
			default:
				ta, tb := args[i].(T), args[j].(T)
				goal = Or(Eq(ta, IntLit(0)), Not(Eq(ta, tb)))
			}
			tc.addObl(&Obligation{Name: ShortName(tc.fn.String()) + "/pre:noalias:" + ShortName(ct.Func), Func: tc.fn.String(), Kind: "pre",
				Decls: append([]string(nil), st.decls...), PC: append([]T(nil), st.pc...), Goal: goal, Src: "pointer arguments of " + ShortName(ct.Func) + " do not alias"})
		}
	}
}

func samePath(a, b []PathSel) bool {
	if len(a) != len(b) {
		return false
	}
	for i := range a {
		if a[i].Field != b[i].Field {
			return false
		}
		if (a[i].Index == nil) != (b[i].Index == nil) {
			return false
		}
		if a[i].Index != nil && a[i].Index.S != b[i].Index.S {
			return true // possibly equal indices: treat as same path (conservative)
		}
	}
	return true
}

// pureResults models an effect-free library function as an uninterpreted function of its arguments
// (same arguments, same results) when all arguments are value-like terms; otherwise fresh results.
func (fr *frame) pureResults(st *PState, sig *types.Signature, qname string, args []Val) Val {
	ex := fr.ex
	var ats []T
	var ptypes []types.Type
	if sig.Recv() != nil {
		ptypes = append(ptypes, sig.Recv().Type())
	}
	for i := 0; i < sig.Params().Len(); i++ {
		ptypes = append(ptypes, sig.Params().At(i).Type())
	}
	if sig.Variadic() || len(ptypes) != len(args) || sig.Results().Len() == 0 {
		return fr.freshResults(st, sig, qname)
	}
	var asorts []string
	for i, a := range args {
		t, ok := a.(T)
		if !ok {
			return fr.freshResults(st, sig, qname)
		}
		switch t.Sort {
		case SBool, SBytes, SIntV, SDecV:
		case SInt:
			switch ptypes[i].Underlying().(type) {
			case *types.Basic:
			default:
				if !isNamed(ptypes[i], "time", "Time") {
					return fr.freshResults(st, sig, qname)
				}
			}
		default:
			return fr.freshResults(st, sig, qname)
		}
		ats = append(ats, t)
		asorts = append(asorts, t.Sort)
	}
	mkRes := func(i int) T {
		rt := sig.Results().At(i).Type()
		rs := ex.Sorts.SortOf(rt)
		name := fmt.Sprintf("uf_%s_%d", sanitize(ShortName(qname)), i)
		ex.declFun(name, asorts, rs)
		r := WithGo(st.Name("pure", App(rs, name, ats...)), rt)
		st.TypeFacts(r, rt, 0)
		return r
	}
	if sig.Results().Len() == 1 {
		return mkRes(0)
	}
	tv := &TupleVal{}
	for i := 0; i < sig.Results().Len(); i++ {
		tv.Elems = append(tv.Elems, mkRes(i))
	}
	return tv
}

// ctxFreeInterface: an interface type none of whose methods takes or returns a context (a value object such as a
// wrapped consensus key); the empty interface and unknown types are not.
func ctxFreeInterface(t types.Type) bool {
	if t == nil {
		return false
	}
	it, ok := t.Underlying().(*types.Interface)
	if !ok || it.NumMethods() == 0 {
		return false
	}
	mentionsCtx := func(tu *types.Tuple) bool {
		for i := 0; i < tu.Len(); i++ {
			s := tu.At(i).Type().String()
			if strings.HasSuffix(s, "types.Context") || s == "context.Context" || strings.HasPrefix(s, "func(") {
				return true
			}
		}
		return false
	}
	for i := 0; i < it.NumMethods(); i++ {
		ms := it.Method(i).Type().(*types.Signature)
		if mentionsCtx(ms.Params()) || mentionsCtx(ms.Results()) {
			return false
		}
	}
	return true
}
