// Package vc is the verification-condition generator of exovc: it symbolically executes the
// go/ssa form of functions loaded from /repo's working tree against contracts and emits SMT-LIB2
// obligations. See /verif/DESIGN.md §2–§3.
package vc

import (
	"fmt"
	"go/types"
	"math/big"
	"strings"
)

// Sort names used in the SMT encoding.
const (
	SBool  = "Bool"
	SInt   = "Int"
	SBytes = "Bytes" // strings and []byte (datatype, see prelude)
	SIntV  = "IntV"  // cosmossdk.io/math.Int  (isnil, val)
	SDecV  = "DecV"  // cosmossdk.io/math.LegacyDec (isnil, val scaled by 10^18)
	SSlice = "Slice" // any non-byte slice: (base, off, len, cap)
	SIface = "Iface" // any interface value incl. error
	SCtx   = "Ctx"   // sdk.Context
	SState = "State" // (Array SK Bytes)
	SKV    = "KV"    // (Array Int State)   cell -> State
	SUnit  = "Unit"
)

// T is an SMT term with its sort and (optionally) the Go type it stands for.
type T struct {
	S    string
	Sort string
	Go   types.Type
}

func (t T) String() string { return t.S }
func (t T) IsZero() bool   { return t.S == "" }

func mk(sort string, format string, args ...interface{}) T {
	return T{S: fmt.Sprintf(format, args...), Sort: sort}
}

func Bool(b bool) T {
	if b {
		return T{S: "true", Sort: SBool}
	}
	return T{S: "false", Sort: SBool}
}

func IntLit(n int64) T {
	if n < 0 {
		return T{S: fmt.Sprintf("(- %d)", -n), Sort: SInt}
	}
	return T{S: fmt.Sprintf("%d", n), Sort: SInt}
}

func BigLit(n *big.Int) T {
	if n.Sign() < 0 {
		return T{S: fmt.Sprintf("(- %s)", new(big.Int).Neg(n).String()), Sort: SInt}
	}
	return T{S: n.String(), Sort: SInt}
}

func App(sort, fn string, args ...T) T {
	if len(args) == 0 {
		return T{S: fn, Sort: sort}
	}
	var sb strings.Builder
	sb.WriteString("(")
	sb.WriteString(fn)
	for _, a := range args {
		sb.WriteString(" ")
		sb.WriteString(a.S)
	}
	sb.WriteString(")")
	return T{S: sb.String(), Sort: sort}
}

func Not(a T) T {
	switch a.S {
	case "true":
		return Bool(false)
	case "false":
		return Bool(true)
	}
	if strings.HasPrefix(a.S, "(not ") {
		return T{S: a.S[5 : len(a.S)-1], Sort: SBool}
	}
	return App(SBool, "not", a)
}

func And(as ...T) T {
	var xs []T
	for _, a := range as {
		if a.S == "true" {
			continue
		}
		if a.S == "false" {
			return Bool(false)
		}
		xs = append(xs, a)
	}
	if len(xs) == 0 {
		return Bool(true)
	}
	if len(xs) == 1 {
		return xs[0]
	}
	return App(SBool, "and", xs...)
}

func Or(as ...T) T {
	var xs []T
	for _, a := range as {
		if a.S == "false" {
			continue
		}
		if a.S == "true" {
			return Bool(true)
		}
		xs = append(xs, a)
	}
	if len(xs) == 0 {
		return Bool(false)
	}
	if len(xs) == 1 {
		return xs[0]
	}
	return App(SBool, "or", xs...)
}

func Implies(a, b T) T {
	if a.S == "true" {
		return b
	}
	if a.S == "false" || b.S == "true" {
		return Bool(true)
	}
	return App(SBool, "=>", a, b)
}

func Eq(a, b T) T {
	if a.S == b.S {
		return Bool(true)
	}
	if a.S > b.S { // canonical argument order, so that syntactically equal facts are recognised
		a, b = b, a
	}
	return App(SBool, "=", a, b)
}

func Ite(c, a, b T) T {
	if c.S == "true" {
		return a
	}
	if c.S == "false" {
		return b
	}
	if a.S == b.S {
		return a
	}
	r := App(a.Sort, "ite", c, a, b)
	r.Go = a.Go
	return r
}

func Select(arr T, idx T, elemSort string) T { return App(elemSort, "select", arr, idx) }
func Store(arr T, idx T, v T) T              { return App(arr.Sort, "store", arr, idx, v) }

func WithGo(t T, g types.Type) T { t.Go = g; return t }

// sanitize makes a string usable inside an SMT symbol.
func sanitize(s string) string {
	var sb strings.Builder
	for _, r := range s {
		switch {
		case r >= 'a' && r <= 'z', r >= 'A' && r <= 'Z', r >= '0' && r <= '9', r == '_':
			sb.WriteRune(r)
		default:
			sb.WriteRune('_')
		}
	}
	return sb.String()
}

// ISub / IAdd build integer differences / sums with constant folding of small literals.
func ISub(a, b T) T {
	if b.S == "0" {
		return a
	}
	x, okx := new(big.Int).SetString(a.S, 10)
	y, oky := new(big.Int).SetString(b.S, 10)
	if okx && oky {
		return BigLit(new(big.Int).Sub(x, y))
	}
	return App(SInt, "-", a, b)
}

func IAdd(a, b T) T {
	if b.S == "0" {
		return a
	}
	if a.S == "0" {
		return b
	}
	x, okx := new(big.Int).SetString(a.S, 10)
	y, oky := new(big.Int).SetString(b.S, 10)
	if okx && oky {
		return BigLit(new(big.Int).Add(x, y))
	}
	return App(SInt, "+", a, b)
}

// Cat builds the concatenation of two byte strings in right-nested normal form:
// cat(cat(x, y), b) is rewritten to cat(x, cat(y, b)), so that "key under prefix P" is always cat(P, rest).
func Cat(a, b T) T {
	if strings.HasPrefix(a.S, "(cat ") {
		if sx, err := parseSexprs(a.S); err == nil && len(sx) == 1 && len(sx[0].list) == 3 {
			x := T{S: sx[0].list[1].String(), Sort: SBytes}
			y := T{S: sx[0].list[2].String(), Sort: SBytes}
			return Cat(x, Cat(y, b))
		}
	}
	return App(SBytes, "cat", a, b)
}
