package vc

import (
	"go/ast"
	"go/constant"
	"go/token"
	"go/types"

	"golang.org/x/tools/go/packages"
	"golang.org/x/tools/go/ssa"
)

// globalConst evaluates package-level variables whose initialiser is a constant or a constant
// byte string ([]byte{c1, c2}, []byte("s")) from the package syntax, so that store-prefix
// constants are taken from the source on every run.
func (ex *Exec) globalConst(g *ssa.Global) (T, bool) {
	if ex.globalCache == nil {
		ex.globalCache = map[*ssa.Global]*T{}
	}
	if t, ok := ex.globalCache[g]; ok {
		if t == nil {
			return T{}, false
		}
		return *t, true
	}
	ex.globalCache[g] = nil
	var pkg *packages.Package
	for _, p := range ex.W.Pkgs {
		if g.Pkg != nil && p.PkgPath == g.Pkg.Pkg.Path() {
			pkg = p
		}
	}
	if pkg == nil {
		return T{}, false
	}
	et := g.Type().(*types.Pointer).Elem()
	for _, f := range pkg.Syntax {
		for _, d := range f.Decls {
			gd, ok := d.(*ast.GenDecl)
			if !ok || gd.Tok != token.VAR {
				continue
			}
			for _, sp := range gd.Specs {
				vs := sp.(*ast.ValueSpec)
				for i, n := range vs.Names {
					if n.Name != g.Name() || i >= len(vs.Values) {
						continue
					}
					if t, ok := ex.evalConstExpr(pkg, vs.Values[i], et); ok {
						t.Go = et
						ex.globalCache[g] = &t
						return t, true
					}
					return T{}, false
				}
			}
		}
	}
	return T{}, false
}

func (ex *Exec) evalConstExpr(pkg *packages.Package, e ast.Expr, et types.Type) (T, bool) {
	if tv, ok := pkg.TypesInfo.Types[e]; ok && tv.Value != nil {
		return ex.constTerm(tv.Value, et), true
	}
	switch x := e.(type) {
	case *ast.CompositeLit:
		if !isByteSlice(et) {
			return T{}, false
		}
		var bs []byte
		for _, el := range x.Elts {
			tv, ok := pkg.TypesInfo.Types[el]
			if !ok || tv.Value == nil {
				return T{}, false
			}
			n, ok := constant.Int64Val(tv.Value)
			if !ok {
				return T{}, false
			}
			bs = append(bs, byte(n))
		}
		return ex.Lits.Term(string(bs)), true
	case *ast.CallExpr:
		if len(x.Args) == 1 && isByteSlice(et) {
			if tv, ok := pkg.TypesInfo.Types[x.Args[0]]; ok && tv.Value != nil && tv.Value.Kind() == constant.String {
				return ex.Lits.Term(constant.StringVal(tv.Value)), true
			}
		}
	}
	return T{}, false
}
