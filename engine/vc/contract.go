package vc

import (
	"bufio"
	"fmt"
	"go/ast"
	"go/parser"
	"os"
	"path/filepath"
	"regexp"
	"sort"
	"strconv"
	"strings"
)

// Clause is one line of a contract.
type Clause struct {
	Kind  string // requires | ensures | invariant | nopanic | lemma | cover
	Label string
	Expr  ast.Expr
	Src   string
	File  string
	Line  int
}

// Contract is the contract of one function (or closure).
type Contract struct {
	Designator string // as written
	Func       string // qualified ssa name
	Pkg        string
	Requires   []Clause
	Ensures    []Clause
	NoPanic    []Clause
	Modifies   []string
	Flags      map[string]string // assumed, inline, trace, ...
	Loops      map[int][]Clause  // loop ordinal (1-based, source order) -> invariants
	Steps      map[int][]Clause  // loop ordinal -> per-iteration clauses (old() = state at the start of the iteration)
	LoopMods   map[int][]string
	Guards     []guardSpec
	Bumps      []Bump   // ghost counters increased at every call (definition of the ghost, not an obligation)
	Emits      []Clause // ghost events appended to the trace, in order (assumed contracts of hook interfaces)
	// Names binds the contract's own names to the parameters by position (receiver excluded, "_" skips one): the
	// clauses then do not depend on what the code calls its parameters (a renamed or blanked parameter).
	Names []string
	File  string
	Line  int
}

// Define is a contract-level macro: define name(a, b) = expr
type Define struct {
	Name   string
	Params []string
	Body   ast.Expr
	Src    string
}

// Lemma is a closed SMT goal over spec functions.
type Lemma struct {
	Name   string
	Label  string
	Params []string // "x Int" pairs
	Hyps   []Clause
	Goal   Clause
}

type ContractSet struct {
	ByFunc  map[string]*Contract
	Defines map[string]*Define
	Lemmas  []*Lemma
	Files   []string
}

func NewContractSet() *ContractSet {
	return &ContractSet{ByFunc: map[string]*Contract{}, Defines: map[string]*Define{}}
}

var labelRe = regexp.MustCompile(`^(\w+)\[([^\]]+)\]\s*(.*)$`)

var clauseKinds = map[string]bool{"requires": true, "ensures": true, "invariant": true, "nopanic": true,
	"modifies": true, "flag": true, "before": true, "emits": true, "bumps": true, "step": true, "hyp": true, "goal": true, "cover": true, "loopmodifies": true, "names": true}

// LoadContractFile parses one contract file; pkgPath is the import path its designators are relative to
// ("" for library files that use fully qualified designators).
func (cs *ContractSet) LoadContractFile(path, pkgPath string) error {
	f, err := os.Open(path)
	if err != nil {
		return err
	}
	defer f.Close()
	cs.Files = append(cs.Files, path)
	sc := bufio.NewScanner(f)
	sc.Buffer(make([]byte, 1<<20), 1<<20)
	var cur *Contract
	var curLoop int
	var curLemma *Lemma
	type pending struct {
		kind, label, text string
		line              int
	}
	var pend *pending
	flush := func() error {
		if pend == nil {
			return nil
		}
		p := pend
		pend = nil
		if p.kind == "define" {
			return cs.flushDefine(p.label, p.text, path, p.line)
		}
		mk := func() (Clause, error) {
			e, err := ParseSpecExpr(p.text)
			if err != nil {
				return Clause{}, fmt.Errorf("%s:%d: %v (in %q)", path, p.line, err, p.text)
			}
			return Clause{Kind: p.kind, Label: p.label, Expr: e, Src: p.text, File: path, Line: p.line}, nil
		}
		if curLemma != nil {
			c, err := mk()
			if err != nil {
				return err
			}
			if p.kind == "hyp" {
				curLemma.Hyps = append(curLemma.Hyps, c)
			} else if p.kind == "goal" {
				curLemma.Goal = c
			} else {
				return fmt.Errorf("%s:%d: clause %s not allowed in lemma", path, p.line, p.kind)
			}
			return nil
		}
		if cur == nil {
			return fmt.Errorf("%s:%d: clause outside func", path, p.line)
		}
		switch p.kind {
		case "modifies":
			if curLoop > 0 {
				cur.LoopMods[curLoop] = append(cur.LoopMods[curLoop], splitTop(p.text, ',')...)
			} else {
				cur.Modifies = append(cur.Modifies, splitTop(p.text, ',')...)
			}
			return nil
		case "names":
			for _, n := range strings.Split(p.text, ",") {
				cur.Names = append(cur.Names, strings.TrimSpace(n))
			}
			return nil
		case "flag":
			kv := strings.SplitN(p.text, "=", 2)
			if len(kv) == 2 {
				cur.Flags[strings.TrimSpace(kv[0])] = strings.TrimSpace(kv[1])
			} else {
				cur.Flags[strings.TrimSpace(p.text)] = "true"
			}
			return nil
		case "bumps":
			// bumps <ghost counter> by <expr>
			i := strings.Index(p.text, " by ")
			if i < 0 {
				return fmt.Errorf("%s:%d: bumps clause needs 'by'", path, p.line)
			}
			e, err := ParseSpecExpr(p.text[i+4:])
			if err != nil {
				return fmt.Errorf("%s:%d: %v", path, p.line, err)
			}
			cur.Bumps = append(cur.Bumps, Bump{Name: strings.TrimSpace(p.text[:i]), By: Clause{Kind: "bumps", Expr: e, Src: p.text[i+4:], File: path, Line: p.line}})
			return nil
		case "before":
			// before[label] <callee designator> requires <expr>
			i := strings.Index(p.text, " requires ")
			if i < 0 {
				return fmt.Errorf("%s:%d: before clause needs 'requires'", path, p.line)
			}
			e, err := ParseSpecExpr(p.text[i+10:])
			if err != nil {
				return fmt.Errorf("%s:%d: %v", path, p.line, err)
			}
			cur.Guards = append(cur.Guards, guardSpec{Callee: strings.TrimSpace(p.text[:i]), Label: p.label,
				Expr: Clause{Kind: "before", Label: p.label, Expr: e, Src: p.text[i+10:], File: path, Line: p.line}})
			return nil
		case "nopanic":
			c := Clause{Kind: "nopanic", Label: p.label, Src: p.text, File: path, Line: p.line}
			cur.NoPanic = append(cur.NoPanic, c)
			return nil
		}
		c, err := mk()
		if err != nil {
			return err
		}
		switch p.kind {
		case "requires":
			cur.Requires = append(cur.Requires, c)
		case "emits":
			cur.Emits = append(cur.Emits, c)
		case "ensures":
			cur.Ensures = append(cur.Ensures, c)
		case "step":
			if curLoop == 0 {
				return fmt.Errorf("%s:%d: step outside loop", path, p.line)
			}
			cur.Steps[curLoop] = append(cur.Steps[curLoop], c)
		case "invariant":
			if curLoop == 0 {
				return fmt.Errorf("%s:%d: invariant outside loop", path, p.line)
			}
			cur.Loops[curLoop] = append(cur.Loops[curLoop], c)
		default:
			return fmt.Errorf("%s:%d: unknown clause kind %s", path, p.line, p.kind)
		}
		return nil
	}
	ln := 0
	for sc.Scan() {
		ln++
		line := strings.TrimSpace(sc.Text())
		if !strings.HasPrefix(line, "//@") {
			continue
		}
		line = strings.TrimSpace(line[3:])
		if line == "" || strings.HasPrefix(line, "#") {
			continue
		}
		word := line
		rest := ""
		if i := strings.IndexAny(line, " \t"); i >= 0 {
			word, rest = line[:i], strings.TrimSpace(line[i+1:])
		}
		label := ""
		if m := labelRe.FindStringSubmatch(line); m != nil {
			word, label, rest = m[1], m[2], m[3]
		}
		switch {
		case word == "func":
			if err := flush(); err != nil {
				return err
			}
			curLemma = nil
			curLoop = 0
			des := rest
			q := des
			if pkgPath != "" {
				q = Qualify(pkgPath, des)
			}
			cur = &Contract{Designator: des, Func: q, Pkg: pkgPath, Flags: map[string]string{}, Loops: map[int][]Clause{}, Steps: map[int][]Clause{}, LoopMods: map[int][]string{}, File: path, Line: ln}
			if old, dup := cs.ByFunc[q]; dup {
				return fmt.Errorf("%s:%d: duplicate contract for %s (first at %s:%d)", path, ln, q, old.File, old.Line)
			}
			cs.ByFunc[q] = cur
		case word == "loop":
			if err := flush(); err != nil {
				return err
			}
			n, err := strconv.Atoi(strings.TrimPrefix(rest, "#"))
			if err != nil || cur == nil {
				return fmt.Errorf("%s:%d: bad loop header %q", path, ln, rest)
			}
			curLoop = n
			if _, ok := cur.Loops[n]; !ok {
				cur.Loops[n] = nil
			}
		case word == "define":
			if err := flush(); err != nil {
				return err
			}
			// define name(a, b) = expr
			i := strings.Index(rest, "=")
			j := strings.Index(rest, "(")
			k := strings.Index(rest, ")")
			if i < 0 || j < 0 || k < 0 || k > i {
				return fmt.Errorf("%s:%d: bad define", path, ln)
			}
			name := strings.TrimSpace(rest[:j])
			var params []string
			for _, p := range strings.Split(rest[j+1:k], ",") {
				if p = strings.TrimSpace(p); p != "" {
					params = append(params, p)
				}
			}
			pend = &pending{kind: "define", label: name + ":" + strings.Join(params, ","), text: strings.TrimSpace(rest[i+1:]), line: ln}
		case word == "lemma":
			if err := flush(); err != nil {
				return err
			}
			cur = nil
			// lemma[label] name(x Int, y Int)
			j := strings.Index(rest, "(")
			k := strings.LastIndex(rest, ")")
			if j < 0 || k < 0 {
				return fmt.Errorf("%s:%d: bad lemma header", path, ln)
			}
			curLemma = &Lemma{Name: strings.TrimSpace(rest[:j]), Label: label}
			for _, p := range strings.Split(rest[j+1:k], ",") {
				if p = strings.TrimSpace(p); p != "" {
					curLemma.Params = append(curLemma.Params, p)
				}
			}
			cs.Lemmas = append(cs.Lemmas, curLemma)
		case clauseKinds[word]:
			if err := flush(); err != nil {
				return err
			}
			pend = &pending{kind: word, label: label, text: rest, line: ln}
		default:
			// continuation of the previous clause
			if pend == nil {
				return fmt.Errorf("%s:%d: unexpected line %q", path, ln, line)
			}
			pend.text += " " + line
		}
	}
	return flush()
}

func (cs *ContractSet) flushDefine(kind, text, path string, line int) error {
	parts := strings.SplitN(kind, ":", 2)
	name := parts[0]
	var params []string
	if parts[1] != "" {
		params = strings.Split(parts[1], ",")
	}
	e, err := ParseSpecExpr(text)
	if err != nil {
		return fmt.Errorf("%s:%d: define %s: %v", path, line, name, err)
	}
	cs.Defines[name] = &Define{Name: name, Params: params, Body: e, Src: text}
	return nil
}

// LoadRepoContracts loads zz_contracts_verif.go of every loaded package directory.
func (cs *ContractSet) LoadRepoContracts(w *World) error {
	var paths []string
	for p := range w.PkgDir {
		paths = append(paths, p)
	}
	sort.Strings(paths)
	for _, p := range paths {
		fn := filepath.Join(w.PkgDir[p], "zz_contracts_verif.go")
		if _, err := os.Stat(fn); err != nil {
			continue
		}
		if err := cs.LoadContractFile(fn, p); err != nil {
			return err
		}
	}
	return nil
}

// ParseSpecExpr parses a spec expression (Go expression syntax plus ==> and <==>).
func ParseSpecExpr(s string) (ast.Expr, error) {
	r := rewriteImpl(s)
	return parser.ParseExpr(r)
}

// splitTop splits s at top-level occurrences of sep (not inside brackets or quotes).
func splitTop(s string, sep byte) []string {
	var out []string
	depth := 0
	inq := false
	start := 0
	for i := 0; i < len(s); i++ {
		c := s[i]
		if inq {
			if c == '\\' {
				i++
			} else if c == '"' {
				inq = false
			}
			continue
		}
		switch c {
		case '"':
			inq = true
		case '(', '[', '{':
			depth++
		case ')', ']', '}':
			depth--
		default:
			if c == sep && depth == 0 {
				out = append(out, strings.TrimSpace(s[start:i]))
				start = i + 1
			}
		}
	}
	out = append(out, strings.TrimSpace(s[start:]))
	return out
}

func findTop(s, op string) int {
	depth := 0
	inq := false
	for i := 0; i < len(s); i++ {
		c := s[i]
		if inq {
			if c == '\\' {
				i++
			} else if c == '"' {
				inq = false
			}
			continue
		}
		switch c {
		case '"':
			inq = true
		case '(', '[', '{':
			depth++
		case ')', ']', '}':
			depth--
		default:
			if depth == 0 && strings.HasPrefix(s[i:], op) {
				// do not match "==>" inside "<==>"
				if op == "==>" && i > 0 && s[i-1] == '<' {
					continue
				}
				return i
			}
		}
	}
	return -1
}

func rewriteImpl(s string) string {
	s = strings.TrimSpace(s)
	if i := findTop(s, "<==>"); i >= 0 {
		return "iff(" + rewriteImpl(s[:i]) + ", " + rewriteImpl(s[i+4:]) + ")"
	}
	if i := findTop(s, "==>"); i >= 0 {
		return "implies(" + rewriteImpl(s[:i]) + ", " + rewriteImpl(s[i+3:]) + ")"
	}
	// recurse into parenthesised groups
	var sb strings.Builder
	inq := false
	for i := 0; i < len(s); i++ {
		c := s[i]
		if inq {
			sb.WriteByte(c)
			if c == '\\' && i+1 < len(s) {
				i++
				sb.WriteByte(s[i])
			} else if c == '"' {
				inq = false
			}
			continue
		}
		if c == '"' {
			inq = true
			sb.WriteByte(c)
			continue
		}
		if c == '(' {
			// find matching
			depth := 0
			j := i
			for ; j < len(s); j++ {
				if s[j] == '(' {
					depth++
				} else if s[j] == ')' {
					depth--
					if depth == 0 {
						break
					}
				}
			}
			if j >= len(s) {
				sb.WriteString(s[i:])
				break
			}
			inner := s[i+1 : j]
			parts := splitTop(inner, ',')
			for k := range parts {
				parts[k] = rewriteImpl(parts[k])
			}
			sb.WriteString("(" + strings.Join(parts, ", ") + ")")
			i = j
			continue
		}
		sb.WriteByte(c)
	}
	return sb.String()
}

// LoadLibContracts loads /verif/lib/*.contracts (fully qualified designators, assumed contracts).
func (cs *ContractSet) LoadLibContracts(dir string) error {
	files, _ := filepath.Glob(filepath.Join(dir, "*.contracts"))
	sort.Strings(files)
	for _, f := range files {
		if err := cs.LoadContractFile(f, ""); err != nil {
			return err
		}
	}
	return nil
}

// Bump is one `bumps <name> by <expr>` clause.
type Bump struct {
	Name string
	By   Clause
}
