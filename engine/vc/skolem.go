package vc

import (
	"fmt"
	"strings"
)

// Goal skolemisation and hypothesis instantiation.
//
// A goal of the shape  A => forall x. (G(x) => B(x))  is refuted by a witness x0: the generator introduces the witness
// as a fresh constant (an equivalence-preserving step on the negated goal) and then adds, for every universally
// quantified hypothesis over the same sort, its instance at the witness (sound: an instance of an asserted formula).
// This removes the dependence on solver triggers for the standard "invariant holds for all processed indices" step;
// the quantified hypotheses stay asserted as they are.

func sxSubst(s *sexpr, v string, by *sexpr) *sexpr {
	if s.list == nil {
		if s.atom == v {
			return by
		}
		return s
	}
	out := &sexpr{list: make([]*sexpr, len(s.list))}
	for i, c := range s.list {
		out.list[i] = sxSubst(c, v, by)
	}
	return out
}

func sxHead(s *sexpr) string {
	if s.list != nil && len(s.list) > 0 && s.list[0].list == nil {
		return s.list[0].atom
	}
	return ""
}

// sxSingleForall returns (var, sort, body) for (forall ((v S)) body) with one bound variable.
func sxSingleForall(s *sexpr) (string, string, *sexpr, bool) {
	if sxHead(s) != "forall" || len(s.list) != 3 {
		return "", "", nil, false
	}
	bs := s.list[1]
	if bs.list == nil || len(bs.list) != 1 || len(bs.list[0].list) != 2 {
		return "", "", nil, false
	}
	b := bs.list[0]
	body := s.list[2]
	if sxHead(body) == "!" && len(body.list) >= 2 {
		body = body.list[1]
	}
	return b.list[0].String(), b.list[1].String(), body, true
}

type skolemOut struct {
	Decls   []string
	Asserts []string // antecedents of the goal, asserted positively
	Rest    string   // what remains to be refuted
	Consts  map[string][]string
}

func skolemizeGoal(goal string, tag string) *skolemOut {
	out := &skolemOut{Rest: goal, Consts: map[string][]string{}}
	if !strings.Contains(goal, "(forall (") {
		return out
	}
	sx, err := parseSexprs(goal)
	if err != nil || len(sx) != 1 {
		return out
	}
	cur := sx[0]
	n := 0
	for {
		switch sxHead(cur) {
		case "=>":
			if len(cur.list) != 3 {
				out.Rest = cur.String()
				return out
			}
			out.Asserts = append(out.Asserts, cur.list[1].String())
			cur = cur.list[2]
			continue
		case "forall":
			v, sort, body, ok := sxSingleForall(cur)
			if !ok {
				out.Rest = cur.String()
				return out
			}
			n++
			sk := fmt.Sprintf("sk_%s_%d", tag, n)
			out.Decls = append(out.Decls, fmt.Sprintf("(declare-const %s %s)", sk, sort))
			out.Consts[sort] = append(out.Consts[sort], sk)
			cur = sxSubst(body, v, &sexpr{atom: sk})
			continue
		}
		out.Rest = cur.String()
		return out
	}
}

// instancesOf returns the instances of the universally quantified conjuncts of hypothesis p at the given constants.
func instancesOf(p string, consts map[string][]string) []string {
	if !strings.Contains(p, "(forall (") {
		return nil
	}
	sx, err := parseSexprs(p)
	if err != nil || len(sx) != 1 {
		return nil
	}
	var out []string
	var walk func(s *sexpr, depth int)
	walk = func(s *sexpr, depth int) {
		switch sxHead(s) {
		case "and":
			if depth < 3 {
				for _, c := range s.list[1:] {
					walk(c, depth+1)
				}
			}
		case "forall":
			v, sort, body, ok := sxSingleForall(s)
			if !ok {
				return
			}
			for _, c := range consts[sort] {
				inst := sxSubst(body, v, &sexpr{atom: c})
				out = append(out, inst.String())
				walk(inst, depth+1) // nested universals (e.g. pairwise facts) at the same constants
			}
		}
	}
	walk(sx[0], 0)
	return out
}
