package vc

import (
	"fmt"
	"go/ast"
	"go/constant"
	"go/token"
	"go/types"
	"math/big"
	"strconv"
	"strings"

	"golang.org/x/tools/go/ssa"
)

// SpecEnv is the environment in which a spec expression is translated.
type SpecEnv struct {
	ex    *Exec
	vars  map[string]Val // parameter / result names (entry values are name+"0" when provided)
	cur   *PState        // state for current reads
	old   *PState        // state for old(...) (nil if not available)
	pkg   string         // import path of the package the contract belongs to
	bound map[string]T
	depth int
	goal  bool // the clause is being translated as a proof goal (never set for assumptions)
	neg   bool // negative polarity (under a negation / on the left of an implication)
}

// Goal marks the environment as translating a proof goal: a subformula that mentions a path ghost (res_*, it_*) which
// does not exist on the current path is then replaced by the constant that makes the goal stronger (false in positive,
// true in negative positions). Assumptions are never translated this way: there such a clause is an error / skipped.
func (e *SpecEnv) Goal() *SpecEnv { e.goal = true; return e }

func (e *SpecEnv) flip() *SpecEnv {
	c := *e
	c.neg = !e.neg
	return &c
}

// boolOrStronger translates a Bool subformula; see Goal.
func (e *SpecEnv) boolOrStronger(x ast.Expr) T {
	if !e.goal {
		return e.wantBool(x)
	}
	t, ok := e.boolIfDefined(x)
	if ok {
		return t
	}
	return Bool(e.neg)
}

func (e *SpecEnv) child() *SpecEnv {
	c := *e
	c.bound = map[string]T{}
	for k, v := range e.bound {
		c.bound[k] = v
	}
	return &c
}

type specErr struct{ msg string }

func (s specErr) Error() string { return s.msg }

func sfail(format string, a ...interface{}) { panic(specErr{fmt.Sprintf(format, a...)}) }

// Tr translates a spec expression to an SMT term; errors are returned, not panicked.
func (e *SpecEnv) Tr(x ast.Expr) (t T, err error) {
	defer func() {
		if r := recover(); r != nil {
			if se, ok := r.(specErr); ok {
				err = se
				return
			}
			panic(r)
		}
	}()
	t = e.tr(x)
	e.cur.FlushSide()
	return t, nil
}

func (e *SpecEnv) TrBool(x ast.Expr) (T, error) {
	if e.goal {
		// a goal that is a single atom over a ghost which does not exist on this path is false, like the same atom
		// under a connective (boolOrStronger): the clause speaks about a call that was never made
		return e.trGoalTop(x)
	}
	t, err := e.Tr(x)
	if err != nil {
		return t, err
	}
	if t.Sort != SBool {
		return t, fmt.Errorf("expected Bool, got %s in %s", t.Sort, exprString(x))
	}
	return t, nil
}

func (e *SpecEnv) trGoalTop(x ast.Expr) (t T, err error) {
	defer func() {
		if r := recover(); r != nil {
			if se, ok := r.(specErr); ok {
				err = se
				return
			}
			panic(r)
		}
	}()
	t = e.boolOrStronger(x)
	e.cur.FlushSide()
	if t.Sort != SBool {
		return t, fmt.Errorf("expected Bool, got %s in %s", t.Sort, exprString(x))
	}
	return t, nil
}

// closeSide universally closes the side facts (codec facts instantiated per use) that were produced while translating
// the body of a quantifier and mention its bound variable: they hold for every value of it.
func (e *SpecEnv) closeSide(from int, bv T) {
	for i := from; i < len(e.ex.side); i++ {
		if mentionsSym(e.ex.side[i].S, bv.S) {
			e.ex.side[i] = mk(SBool, "(forall ((%s %s)) %s)", bv.S, bv.Sort, e.ex.side[i].S)
		}
	}
}

func mentionsSym(s, sym string) bool {
	for i := 0; ; {
		j := strings.Index(s[i:], sym)
		if j < 0 {
			return false
		}
		end := i + j + len(sym)
		if end >= len(s) || !(s[end] == '_' || (s[end] >= '0' && s[end] <= '9') || (s[end] >= 'a' && s[end] <= 'z') || (s[end] >= 'A' && s[end] <= 'Z')) {
			return true
		}
		i = end
	}
}

// boolIfDefined translates x; ok is false when x mentions a path ghost (res_*, it_*) that is not defined on the
// current path. Every other translation error is re-raised.
func (e *SpecEnv) boolIfDefined(x ast.Expr) (t T, ok bool) {
	defer func() {
		if r := recover(); r != nil {
			if se, isSE := r.(specErr); isSE && (strings.Contains(se.Error(), "unknown identifier res_") || strings.Contains(se.Error(), "unknown identifier it_")) {
				t, ok = T{}, false
				return
			}
			panic(r)
		}
	}()
	return e.wantBool(x), true
}

func exprString(x ast.Expr) string { return types.ExprString(x) }

var nilT = T{S: "nil", Sort: "Nil"}

func (e *SpecEnv) tr(x ast.Expr) T {
	switch x := x.(type) {
	case *ast.ParenExpr:
		return e.tr(x.X)
	case *ast.BasicLit:
		switch x.Kind {
		case token.INT:
			n, ok := new(big.Int).SetString(x.Value, 0)
			if !ok {
				sfail("bad int literal %s", x.Value)
			}
			return BigLit(n)
		case token.STRING:
			s, _ := strconv.Unquote(x.Value)
			return e.ex.Lits.Term(s)
		}
		sfail("unsupported literal %s", x.Value)
	case *ast.Ident:
		return e.ident(x.Name)
	case *ast.UnaryExpr:
		switch x.Op {
		case token.NOT:
			return Not(e.flip().boolOrStronger(x.X))
		case token.SUB:
			return App(SInt, "-", e.wantInt(x.X))
		}
		sfail("unsupported unary %s", x.Op)
	case *ast.StarExpr:
		return e.deref(x.X)
	case *ast.BinaryExpr:
		return e.binary(x)
	case *ast.CallExpr:
		return e.call(x)
	case *ast.SelectorExpr:
		return e.selector(x)
	case *ast.IndexExpr:
		return e.index(x)
	}
	sfail("unsupported spec expression %s", exprString(x))
	return T{}
}

func (e *SpecEnv) wantBool(x ast.Expr) T {
	t := e.tr(x)
	if t.Sort != SBool {
		sfail("expected Bool, got %s: %s", t.Sort, exprString(x))
	}
	return t
}

func (e *SpecEnv) wantInt(x ast.Expr) T {
	t := e.tr(x)
	if t.Sort != SInt {
		sfail("expected Int, got %s: %s (use val(x))", t.Sort, exprString(x))
	}
	return t
}

func (e *SpecEnv) ident(name string) T {
	if t, ok := e.bound[name]; ok {
		return t
	}
	switch name {
	case "true":
		return Bool(true)
	case "false":
		return Bool(false)
	case "nil":
		return nilT
	case "TIME_ZERO": // the zero time.Time (t.IsZero())
		return T{S: "TIME_ZERO", Sort: SInt}
	}
	if v, ok := e.vars[name]; ok {
		return e.valTerm(v, name)
	}
	if sig, ok := e.ex.Prelude.Sigs[name]; ok && len(sig.Args) == 0 {
		return T{S: sig.Name, Sort: sig.Ret}
	}
	// package-level object of the contract's package
	if t, ok := e.pkgObject(e.pkg, name); ok {
		return t
	}
	sfail("unknown identifier %s", name)
	return T{}
}

func (e *SpecEnv) valTerm(v Val, name string) T {
	switch v := v.(type) {
	case T:
		return v
	case *PtrVal:
		if v.Kind == PHeap && len(v.Path) == 0 {
			return WithGo(v.Ref, types.NewPointer(v.Root))
		}
		// a pointer to a local or into an object: only its non-nilness is expressible
		return T{S: "@ptr:" + name, Sort: "PtrX"}
	case *IfaceVal:
		if v.Term.IsZero() {
			v.Term = e.ex.ifaceTerm(e.cur, v)
		}
		return v.Term
	}
	sfail("%s has no term representation (%T)", name, v)
	return T{}
}

// pkgObject resolves a package-level const or var.
func (e *SpecEnv) pkgObject(pkgPath, name string) (T, bool) {
	for _, p := range e.ex.W.Pkgs {
		if p.PkgPath != pkgPath {
			continue
		}
		obj := p.Types.Scope().Lookup(name)
		if obj == nil {
			return T{}, false
		}
		return e.objTerm(obj)
	}
	return T{}, false
}

func (e *SpecEnv) objTerm(obj types.Object) (T, bool) {
	switch o := obj.(type) {
	case *types.Const:
		return e.ex.constTerm(o.Val(), o.Type()), true
	case *types.Var:
		if sp := e.ex.W.SSAPkgs[o.Pkg().Path()]; sp != nil {
			if g, ok := sp.Members[o.Name()].(*ssa.Global); ok {
				v := e.cur.loadGlobal(g)
				if t, ok := v.(T); ok {
					return t, true
				}
			}
		}
	}
	return T{}, false
}

func (ex *Exec) constTerm(v constant.Value, t types.Type) T {
	switch v.Kind() {
	case constant.Bool:
		return Bool(constant.BoolVal(v))
	case constant.Int:
		n, _ := new(big.Int).SetString(v.ExactString(), 10)
		return WithGo(BigLit(n), t)
	case constant.String:
		return WithGo(ex.Lits.Term(constant.StringVal(v)), t)
	}
	return T{S: "0", Sort: SInt}
}

func (e *SpecEnv) deref(x ast.Expr) T {
	// *p where p is a pointer parameter (possibly interior in a caller)
	if id, ok := x.(*ast.Ident); ok {
		if v, ok := e.vars[id.Name]; ok {
			if pv, ok := v.(*PtrVal); ok {
				r := e.cur.LoadPtr(pv)
				if t, ok := r.(T); ok {
					return t
				}
				sfail("*%s is not a term", id.Name)
			}
		}
	}
	p := e.tr(x)
	pt, ok := p.Go.(*types.Pointer)
	if !ok {
		if p.Go != nil {
			if pp, ok2 := p.Go.Underlying().(*types.Pointer); ok2 {
				pt, ok = pp, true
			}
		}
	}
	if !ok {
		sfail("cannot dereference %s (no pointer type)", exprString(x))
	}
	_, h := e.cur.Heap(pt.Elem())
	es := e.ex.Sorts.SortOf(pt.Elem())
	return WithGo(Select(h, p, es), pt.Elem())
}

func (e *SpecEnv) binary(x *ast.BinaryExpr) T {
	switch x.Op {
	case token.LAND:
		a := e.boolOrStronger(x.X)
		if e.cur.pcHas(Not(a)) {
			return Bool(false)
		}
		return And(a, e.boolOrStronger(x.Y))
	case token.LOR:
		a := e.boolOrStronger(x.X)
		if e.cur.pcHas(a) {
			return Bool(true)
		}
		return Or(a, e.boolOrStronger(x.Y))
	case token.EQL, token.NEQ:
		a, b := e.tr(x.X), e.tr(x.Y)
		r := e.equal(a, b, x)
		if x.Op == token.NEQ {
			return Not(r)
		}
		return r
	case token.LSS, token.LEQ, token.GTR, token.GEQ:
		a, b := e.wantInt(x.X), e.wantInt(x.Y)
		return App(SBool, x.Op.String(), a, b)
	case token.ADD, token.SUB, token.MUL:
		a, b := e.wantInt(x.X), e.wantInt(x.Y)
		return App(SInt, x.Op.String(), a, b)
	case token.QUO:
		return App(SInt, "tdiv", e.wantInt(x.X), e.wantInt(x.Y))
	case token.REM:
		return App(SInt, "tmod", e.wantInt(x.X), e.wantInt(x.Y))
	}
	sfail("unsupported operator %s", x.Op)
	return T{}
}

func (e *SpecEnv) equal(a, b T, x ast.Expr) T {
	if a.Sort == "Nil" && b.Sort == "Nil" {
		return Bool(true)
	}
	if a.Sort == "Nil" {
		a, b = b, a
	}
	if b.Sort == "Nil" {
		switch a.Sort {
		case "PtrX":
			return Bool(false)
		case SIface:
			return Eq(a, T{S: "inil", Sort: SIface})
		case SBytes:
			return Eq(a, T{S: "bnil", Sort: SBytes})
		case SInt:
			return Eq(a, IntLit(0))
		case SSlice:
			return Eq(App(SInt, "sbase", a), IntLit(0))
		}
		sfail("cannot compare %s with nil in %s", a.Sort, exprString(x))
	}
	if a.Sort != b.Sort {
		sfail("sort mismatch %s vs %s in %s", a.Sort, b.Sort, exprString(x))
	}
	return Eq(a, b)
}

func (e *SpecEnv) selector(x *ast.SelectorExpr) T {
	// pkg-qualified?  handled via g("...") instead.
	var base T
	if id, ok := x.X.(*ast.Ident); ok {
		if _, bound := e.bound[id.Name]; !bound {
			if pv, ok := e.vars[id.Name].(*PtrVal); ok && !(pv.Kind == PHeap && len(pv.Path) == 0) {
				// pointer to a local / interior object: select inside the pointee
				lv, ok := e.cur.LoadPtr(pv).(T)
				if !ok {
					sfail("%s does not point to a term", id.Name)
				}
				lv.Go = pv.ElemType()
				base = lv
			}
		}
	}
	if base.IsZero() {
		base = e.tr(x.X)
	}
	gt := base.Go
	if base.Sort == SCtx {
		switch x.Sel.Name {
		case "height":
			return App(SInt, "ctx_height", base)
		case "time":
			return App(SInt, "ctx_time", base)
		case "chainid":
			return App(SBytes, "ctx_chainid", base)
		case "cell":
			return App(SInt, "ctx_cell", base)
		}
	}
	if gt == nil {
		sfail("no Go type for %s; cannot select .%s", exprString(x.X), x.Sel.Name)
	}
	if pt, ok := gt.Underlying().(*types.Pointer); ok {
		_, h := e.cur.Heap(pt.Elem())
		base = WithGo(Select(h, base, e.ex.Sorts.SortOf(pt.Elem())), pt.Elem())
		gt = pt.Elem()
	}
	if isNamed(gt, "github.com/cosmos/cosmos-sdk/types", "Context") {
		switch x.Sel.Name {
		case "height":
			return App(SInt, "ctx_height", base)
		case "time":
			return App(SInt, "ctx_time", base)
		case "chainid":
			return App(SBytes, "ctx_chainid", base)
		case "cell":
			return App(SInt, "ctx_cell", base)
		}
	}
	si := e.ex.Sorts.StructInfoOf(gt)
	if si == nil {
		sfail("%s is not a struct (type %s)", exprString(x.X), gt)
	}
	for i, f := range si.Fields {
		if f.Name == x.Sel.Name {
			return e.ex.Sorts.Field(base, si, i)
		}
	}
	sfail("no field %s in %s", x.Sel.Name, gt)
	return T{}
}

// mapGet returns the stored value and the presence condition of key k in map m (state e.cur).
func (e *SpecEnv) mapGet(m T, mt *types.Map, k T) (T, T) {
	_, d, _, vh, ks, vs := e.cur.mapHeaps(mt)
	if k.Sort != ks {
		sfail("map key has sort %s, want %s", k.Sort, ks)
	}
	dom := Select(d, m, fmt.Sprintf("(Array %s Bool)", ks))
	vals := Select(vh, m, fmt.Sprintf("(Array %s %s)", ks, vs))
	present := And(Not(Eq(m, IntLit(0))), Select(dom, k, SBool))
	return WithGo(Select(vals, k, vs), mt.Elem()), present
}

func (e *SpecEnv) index(x *ast.IndexExpr) T {
	// slice indexing a[i]
	a := e.tr(x.X)
	if a.Go != nil {
		if mt, ok := a.Go.Underlying().(*types.Map); ok {
			// m[k] as Go evaluates it: the stored value, or the zero value when k is absent (or m is nil)
			k := e.tr(x.Index)
			v, present := e.mapGet(a, mt, k)
			return WithGo(Ite(present, v, e.ex.ZeroOf(mt.Elem())), mt.Elem())
		}
	}
	i := e.wantInt(x.Index)
	if a.Sort == SSlice && a.Go != nil {
		if sl, ok := a.Go.Underlying().(*types.Slice); ok {
			return e.cur.SliceElem(a, i, sl.Elem())
		}
	}
	if a.Sort == SBytes {
		return App(SInt, "bat", a, i)
	}
	if a.Sort == "(Array Int Bytes)" {
		return Select(a, i, SBytes)
	}
	if strings.HasPrefix(a.Sort, "(Array Int ") {
		es := strings.TrimSuffix(strings.TrimPrefix(a.Sort, "(Array Int "), ")")
		r := Select(a, i, es)
		if a.Go != nil {
			if arr, ok := a.Go.Underlying().(*types.Array); ok {
				r.Go = arr.Elem()
			}
		}
		return r
	}
	sfail("cannot index %s of sort %s", exprString(x.X), a.Sort)
	return T{}
}

func (e *SpecEnv) call(x *ast.CallExpr) T {
	// generic-looking builtins: unm[T](b), zero[T]()
	if ix, ok := x.Fun.(*ast.IndexExpr); ok {
		if id, ok := ix.X.(*ast.Ident); ok {
			tname := typeArgString(ix.Index)
			gt := e.ex.LookupType(tname)
			if gt == nil {
				sfail("unknown type %s", tname)
			}
			switch id.Name {
			case "unm":
				b := e.tr(x.Args[0])
				return e.ex.Unm(gt, b)
			case "zero":
				return e.ex.ZeroOf(gt)
			case "heapsame": // heapsame[T](): the heap of pointee type T is as at entry
				if e.old == nil {
					sfail("heapsame needs an old state")
				}
				_, h1 := e.cur.Heap(gt)
				_, h0 := e.old.Heap(gt)
				return Eq(h1, h0)
			case "norm": // norm[T](x): what decoding the encoding of x yields (nil Int/Dec fields become 0)
				v := e.tr(x.Args[0])
				return WithGo(e.ex.normForCodec(v, gt, 0), gt)
			case "deref": // deref[T](p): heap read of a raw reference
				p := e.wantInt(x.Args[0])
				_, h := e.cur.Heap(gt)
				return WithGo(Select(h, p, e.ex.Sorts.SortOf(gt)), gt)
			}
		}
		sfail("unsupported generic call %s", exprString(x.Fun))
	}
	id, ok := x.Fun.(*ast.Ident)
	if !ok {
		sfail("unsupported call %s", exprString(x.Fun))
	}
	name := id.Name
	switch name {
	case "old":
		if e.old == nil {
			sfail("old() not available here")
		}
		c := e.child()
		c.cur = e.old
		// entry values of reassigned parameters: handled by caller providing vars
		return c.tr(x.Args[0])
	case "implies":
		a := e.flip().boolOrStronger(x.Args[0])
		if e.cur.pcHas(Not(a)) {
			return Bool(true) // antecedent is refuted on this path: the consequent need not even be well-defined here
		}
		return Implies(a, e.boolOrStronger(x.Args[1]))
	case "iff":
		return Eq(e.wantBool(x.Args[0]), e.wantBool(x.Args[1]))
	case "ite":
		c := e.wantBool(x.Args[0])
		if e.cur.pcHas(c) {
			return e.tr(x.Args[1])
		}
		if e.cur.pcHas(Not(c)) {
			return e.tr(x.Args[2])
		}
		return Ite(c, e.tr(x.Args[1]), e.tr(x.Args[2]))
	case "val":
		a := e.tr(x.Args[0])
		switch a.Sort {
		case SIntV:
			return App(SInt, "val", a)
		case SDecV:
			return App(SInt, "dval", a)
		}
		sfail("val() of sort %s", a.Sort)
	case "isnil":
		a := e.tr(x.Args[0])
		switch a.Sort {
		case SIntV:
			return App(SBool, "isnil", a)
		case SDecV:
			return App(SBool, "disnil", a)
		}
		sfail("isnil() of sort %s", a.Sort)
	case "iserr":
		a := e.tr(x.Args[0])
		return Not(Eq(a, T{S: "inil", Sort: SIface}))
	case "len":
		a := e.tr(x.Args[0])
		switch a.Sort {
		case SBytes:
			return App(SInt, "blen", a)
		case SSlice:
			// type invariant of every Go slice value, also of one read from the heap inside a specification
			e.ex.side = append(e.ex.side, App(SBool, ">=", App(SInt, "slen", a), IntLit(0)))
			return App(SInt, "slen", a)
		}
		sfail("len() of sort %s", a.Sort)
	case "payload":
		// the integer payload of an interface value (what x.(uint64) etc. yields when the assertion succeeds)
		a := e.tr(x.Args[0])
		if a.Sort != SIface {
			sfail("payload() of sort %s", a.Sort)
		}
		return App(SInt, "ipay", a)
	case "cap":
		a := e.tr(x.Args[0])
		if a.Sort != SSlice {
			sfail("cap() of sort %s", a.Sort)
		}
		return App(SInt, "scap", a)
	case "forall", "exists":
		// forall(i, lo, hi, body): lo <= i < hi ; forall(i, body) unbounded Int
		iv, ok := x.Args[0].(*ast.Ident)
		if !ok {
			sfail("%s: first argument must be an identifier", name)
		}
		c := e.child()
		e.ex.fresh++
		bv := T{S: fmt.Sprintf("q_%s_%d", iv.Name, e.ex.fresh), Sort: SInt}
		c.bound[iv.Name] = bv
		nside := len(e.ex.side)
		defer e.closeSide(nside, bv)
		var guard T = Bool(true)
		var body T
		if len(x.Args) == 4 {
			lo, hi := c.wantInt(x.Args[1]), c.wantInt(x.Args[2])
			guard = And(App(SBool, "<=", lo, bv), App(SBool, "<", bv, hi))
			body = c.wantBool(x.Args[3])
		} else {
			body = c.wantBool(x.Args[1])
		}
		if name == "forall" {
			return mk(SBool, "(forall ((%s Int)) %s)", bv.S, Implies(guard, body).S)
		}
		return mk(SBool, "(exists ((%s Int)) %s)", bv.S, And(guard, body).S)
	case "forallb": // forallb(k, body): k ranges over Bytes
		iv := x.Args[0].(*ast.Ident)
		c := e.child()
		e.ex.fresh++
		bv := T{S: fmt.Sprintf("q_%s_%d", iv.Name, e.ex.fresh), Sort: SBytes}
		c.bound[iv.Name] = bv
		nside := len(e.ex.side)
		defer e.closeSide(nside, bv)
		body := c.wantBool(x.Args[1])
		return mk(SBool, "(forall ((%s Bytes)) %s)", bv.S, body.S)
	case "state":
		c := e.tr(x.Args[0])
		return e.cur.StateOf(c)
	case "get":
		// get(view, key): a store handle (prefix.Store / KVStore value held by a parameter or local) read at key
		if len(x.Args) == 2 {
			id, ok := x.Args[0].(*ast.Ident)
			if !ok {
				sfail("get(view, key): the view must be a name")
			}
			vv, ok := e.vars[id.Name].(*ViewVal)
			if !ok {
				sfail("get(view, key): %s is not a store handle", id.Name)
			}
			k := e.tr(x.Args[1])
			if !vv.Prefix.IsZero() {
				k = Cat(vv.Prefix, k)
			}
			return stGet(Select(e.cur.kv, vv.Cell, SState), vv.Store, k)
		}
		// get(ctx, storeName, key)
		c := e.tr(x.Args[0])
		sid := e.storeArg(x.Args[1])
		k := e.tr(x.Args[2])
		return stGet(e.cur.StateOf(c), sid, k)
	case "store":
		// store("name"): id ; store(ctx, "name"): the whole module store (Array Bytes Bytes)
		if len(x.Args) == 2 {
			c := e.tr(x.Args[0])
			return Select(e.cur.StateOf(c), e.storeArg(x.Args[1]), SStore)
		}
		return e.storeArg(x.Args[0])
	case "g":
		// g("x/assets/types.KeyPrefixReStakerAssetInfos")
		lit, ok := x.Args[0].(*ast.BasicLit)
		if !ok {
			sfail("g() needs a string literal")
		}
		s, _ := strconv.Unquote(lit.Value)
		i := strings.LastIndex(s, ".")
		pkg, nm := RepoModule+"/"+s[:i], s[i+1:]
		if t, ok := e.pkgObject(pkg, nm); ok {
			return t
		}
		sfail("g(%q): not found or not representable", s)
	case "join":
		// join(a, b, ...): strings.Join([a b ...], "/") as a key-family constructor
		var parts []T
		for _, a := range x.Args {
			p := e.tr(a)
			if p.Sort != SBytes {
				sfail("join: argument of sort %s", p.Sort)
			}
			parts = append(parts, p)
		}
		return e.ex.JoinTerm(parts, "/")
	case "cat":
		if len(x.Args) < 2 {
			sfail("cat: needs at least two arguments")
		}
		// cat(a, b, c, ...) = a ++ b ++ c ++ ... (right-nested normal form)
		r := e.tr(x.Args[len(x.Args)-1])
		if r.Sort != SBytes {
			sfail("cat: arguments must be byte strings, got %s", r.Sort)
		}
		for i := len(x.Args) - 2; i >= 0; i-- {
			a := e.tr(x.Args[i])
			if a.Sort != SBytes {
				sfail("cat: arguments must be byte strings, got %s", a.Sort)
			}
			r = Cat(a, r)
		}
		return r
	case "joinsep":
		lit, ok := x.Args[0].(*ast.BasicLit)
		if !ok {
			sfail("joinsep: first argument must be a string literal")
		}
		sep, _ := strconv.Unquote(lit.Value)
		var parts []T
		for _, a := range x.Args[1:] {
			parts = append(parts, e.tr(a))
		}
		return e.ex.JoinTerm(parts, sep)
	case "accstr", "valstr", "consstr":
		// bech32 rendering of an sdk.AccAddress / ValAddress / ConsAddress (as computed by their String methods)
		tn := map[string]string{"accstr": "AccAddress", "valstr": "ValAddress", "consstr": "ConsAddress"}[name]
		gt := e.ex.LookupType("github.com/cosmos/cosmos-sdk/types." + tn)
		if gt == nil {
			sfail("%s: sdk.%s not found", name, tn)
		}
		b := e.tr(x.Args[0])
		r := App(SBytes, "addr_string", IntLit(int64(e.ex.TypeID(gt))), b)
		if name == "accstr" {
			e.ex.side = append(e.ex.side, Implies(App(SBool, ">", App(SInt, "blen", b), IntLit(0)),
				And(Not(App(SBool, "bech32err", r)), Eq(App(SBytes, "bech32addr", r), b))))
		}
		return r
	case "bytelit":
		// bytelit(n): the one-byte string with value n (n a constant)
		t := e.wantInt(x.Args[0])
		n, err := strconv.Atoi(t.S)
		if err != nil || n < 0 || n > 255 {
			sfail("bytelit: constant 0..255 expected, got %s", t.S)
		}
		return e.ex.Lits.Term(string([]byte{byte(n)}))
	case "put":
		// put(state, "store", key, val): functional update of one key of a State term
		stt := e.tr(x.Args[0])
		if stt.Sort != SState {
			sfail("put: first argument must be a State, got %s", stt.Sort)
		}
		sid := e.storeArg(x.Args[1])
		k, v := e.tr(x.Args[2]), e.tr(x.Args[3])
		if v.Sort == "Nil" {
			v = bnilT
		}
		return WithGo(stSet(stt, sid, k, v), nil)
	case "contains":
		sl, xx := e.tr(x.Args[0]), e.tr(x.Args[1])
		if sl.Sort != SSlice || xx.Sort != SBytes {
			sfail("contains: want ([]string, string), got (%s, %s)", sl.Sort, xx.Sort)
		}
		return e.ex.sliceContains(e.cur, sl, xx)
	case "defined":
		// defined(res_X_i): the path ghost exists on the current path (a call of X happened at top level). Decided at
		// translation time; lets a clause speak about "the visit of this iteration" only where there was one.
		id, ok := x.Args[0].(*ast.Ident)
		if !ok {
			sfail("defined: argument must be an identifier")
		}
		_, has := e.vars[id.Name]
		return Bool(has)
	case "ghost":
		// ghost(name): current value of a ghost counter (see PState.Ghost)
		id, ok := x.Args[0].(*ast.Ident)
		if !ok {
			sfail("ghost: argument must be a counter name")
		}
		return e.cur.Ghost(id.Name)
	case "traceN":
		return e.cur.traceN
	case "traceAt":
		return Select(e.cur.trace, e.wantInt(x.Args[0]), "Ev")
	case "has":
		// has(m, k): key k is present in map m
		m := e.tr(x.Args[0])
		if m.Go == nil {
			sfail("has: first argument must be a map")
		}
		mt, ok := m.Go.Underlying().(*types.Map)
		if !ok {
			sfail("has: first argument must be a map")
		}
		_, present := e.mapGet(m, mt, e.tr(x.Args[1]))
		return present
	case "putstore":
		// putstore(state, "store", storeTerm): replace one whole module store of a State term
		stt := e.tr(x.Args[0])
		if stt.Sort != SState {
			sfail("putstore: first argument must be a State, got %s", stt.Sort)
		}
		sid := e.storeArg(x.Args[1])
		v := e.tr(x.Args[2])
		if v.Sort != SStore {
			sfail("putstore: third argument must be a store, got %s", v.Sort)
		}
		return Store(stt, sid, v)
	case "sput":
		// sput(store, key, val): functional update of a module store term (Array Bytes Bytes)
		stt := e.tr(x.Args[0])
		if stt.Sort != SStore {
			sfail("sput: first argument must be a store, got %s", stt.Sort)
		}
		k, v := e.tr(x.Args[1]), e.tr(x.Args[2])
		if v.Sort == "Nil" {
			v = bnilT
		}
		return Store(stt, k, v)
	case "sget":
		stt := e.tr(x.Args[0])
		if stt.Sort != SStore {
			sfail("sget: first argument must be a store, got %s", stt.Sort)
		}
		return Select(stt, e.tr(x.Args[1]), SBytes)
	case "str":
		lit := x.Args[0].(*ast.BasicLit)
		s, _ := strconv.Unquote(lit.Value)
		return e.ex.Lits.Term(s)
	case "intv":
		return App(SIntV, "mkIntV", Bool(false), e.wantInt(x.Args[0]))
	case "decv":
		return App(SDecV, "mkDecV", Bool(false), e.wantInt(x.Args[0]))
	}
	if d, ok := e.ex.CS.Defines[name]; ok {
		if len(d.Params) != len(x.Args) {
			sfail("define %s: want %d args, got %d", name, len(d.Params), len(x.Args))
		}
		if e.depth > 20 {
			sfail("define recursion too deep at %s", name)
		}
		c := e.child()
		c.depth++
		for i, p := range d.Params {
			c.bound[p] = e.tr(x.Args[i])
		}
		return c.tr(d.Body)
	}
	if sig, ok := e.ex.Prelude.Sigs[name]; ok && name != "put" {
		if len(sig.Args) != len(x.Args) {
			sfail("%s: want %d args, got %d", name, len(sig.Args), len(x.Args))
		}
		args := make([]T, len(x.Args))
		for i, a := range x.Args {
			args[i] = e.tr(a)
			if args[i].Sort == "Nil" && sig.Args[i] == SBytes {
				args[i] = T{S: "bnil", Sort: SBytes}
			}
			if args[i].Sort != sig.Args[i] {
				sfail("%s: argument %d has sort %s, want %s", name, i+1, args[i].Sort, sig.Args[i])
			}
		}
		return App(sig.Ret, sig.Name, args...)
	}
	sfail("unknown spec function %s", name)
	return T{}
}

func (e *SpecEnv) storeArg(x ast.Expr) T {
	if lit, ok := x.(*ast.BasicLit); ok && lit.Kind == token.STRING {
		s, _ := strconv.Unquote(lit.Value)
		return e.ex.StoreID(s)
	}
	return e.wantInt(x)
}

func typeArgString(x ast.Expr) string {
	switch x := x.(type) {
	case *ast.Ident:
		return x.Name
	case *ast.SelectorExpr:
		return typeArgString(x.X) + "." + x.Sel.Name
	case *ast.BasicLit:
		s, _ := strconv.Unquote(x.Value)
		return s
	case *ast.StarExpr:
		return "*" + typeArgString(x.X)
	}
	return exprString(x)
}

// StoreID is the stable integer id of a module store name.
func (ex *Exec) StoreID(name string) T {
	return IntLit(ex.Lits.ID("store:" + name))
}

// LookupType finds a named type by "pkgsuffix.Name" (e.g. "x/assets/types.StakerAssetInfo") among
// loaded packages and their imports.
func (ex *Exec) LookupType(name string) types.Type {
	i := strings.LastIndex(name, ".")
	if i < 0 {
		return nil
	}
	suffix, nm := name[:i], name[i+1:]
	seen := map[string]bool{}
	var find func(p *types.Package) types.Type
	find = func(p *types.Package) types.Type {
		if seen[p.Path()] {
			return nil
		}
		seen[p.Path()] = true
		if p.Path() == suffix || strings.HasSuffix(p.Path(), "/"+suffix) {
			if o := p.Scope().Lookup(nm); o != nil {
				if tn, ok := o.(*types.TypeName); ok {
					return tn.Type()
				}
			}
		}
		for _, q := range p.Imports() {
			if t := find(q); t != nil {
				return t
			}
		}
		return nil
	}
	for _, p := range ex.W.Pkgs {
		if t := find(p.Types); t != nil {
			return t
		}
	}
	return nil
}

// JoinTerm is the term for strings.Join(parts, sep) with a literal separator and 1..4 parts:
// an (assumed injective) key-family constructor.
func (ex *Exec) JoinTerm(parts []T, sep string) T {
	if len(parts) == 0 {
		return ex.Lits.Term("")
	}
	if len(parts) == 1 {
		return parts[0]
	}
	if len(parts) > 4 {
		sfail("join of more than 4 parts")
	}
	var id T
	switch sep {
	case "/":
		id = IntLit(1000 + int64(len(parts)))
	case "_":
		id = IntLit(2000 + int64(len(parts)))
	default:
		id = IntLit(ex.Lits.ID("join:"+sep)*8 + int64(len(parts)))
	}
	args := []T{id}
	args = append(args, parts...)
	for len(args) < 5 {
		args = append(args, bnilT)
	}
	ex.Assumed["key algebra: strings.Join(parts, \""+sep+"\") is injective in its parts (parts contain no separator)"] = true
	return App(SBytes, "kf", args...)
}
