package vc

import (
	"bytes"
	"context"
	"encoding/json"
	"fmt"
	"go/types"
	"os"
	"os/exec"
	"path/filepath"
	"regexp"
	"strings"
	"time"

	"golang.org/x/tools/go/ssa"
)

// Replay of a solver counterexample on the real code, for functions without chain state:
//  1. the model values of the parameters (and of the objects pointer parameters point to) are read with (get-value);
//  2. an in-package Go test calling the real function with these values is generated and run through
//     `go test -overlay` (nothing is written into /repo); it prints the real results;
//  3. the violated contract clause is evaluated on (model inputs, REAL outputs) as a ground SMT query.
// The violation is confirmed when the clause is false for what the real code actually returned.

type replayParam struct {
	name   string
	goT    types.Type
	kind   string // intv decv int bool bigint ptr:intv ptr:decv ptrstruct string bytes
	smt    T      // symbolic constant of the obligation
	fields []replayField
	si     *StructInfo
	ref    int
}

type replayField struct {
	name string
	goT  types.Type
	kind string
	val  string // model value (SMT literal)
}

func replayKind(ex *Exec, t types.Type) string {
	switch {
	case isNamed(t, "cosmossdk.io/math", "Int"):
		return "intv"
	case isNamed(t, "cosmossdk.io/math", "LegacyDec"):
		return "decv"
	case isBigIntPtr(t):
		return "bigint"
	}
	switch u := t.Underlying().(type) {
	case *types.Basic:
		switch {
		case u.Info()&types.IsBoolean != 0:
			return "bool"
		case u.Info()&types.IsInteger != 0:
			return "int"
		case u.Info()&types.IsString != 0:
			return "string"
		}
	case *types.Slice:
		if isByteSlice(t) {
			return "bytes"
		}
	case *types.Pointer:
		switch replayKind(ex, u.Elem()) {
		case "intv":
			return "ptr:intv"
		case "decv":
			return "ptr:decv"
		}
		if ex.Sorts.StructInfoOf(u.Elem()) != nil {
			return "ptrstruct"
		}
	}
	return ""
}

// CanReplay reports whether the pure-function replay harness applies to fn.
func (ex *Exec) CanReplay(fn *ssa.Function) bool {
	if fn == nil || len(fn.FreeVars) > 0 || fn.Signature.Recv() != nil {
		return false
	}
	for _, p := range fn.Params {
		k := replayKind(ex, p.Type())
		if k == "" {
			return false
		}
		if k == "ptrstruct" {
			si := ex.Sorts.StructInfoOf(p.Type().Underlying().(*types.Pointer).Elem())
			for _, f := range si.Fields {
				fk := replayKind(ex, f.Go)
				if fk == "" || strings.HasPrefix(fk, "ptr") {
					return false
				}
			}
		}
	}
	rs := fn.Signature.Results()
	for i := 0; i < rs.Len(); i++ {
		rt := rs.At(i).Type()
		if types.TypeString(rt, nil) == "error" {
			continue
		}
		k := replayKind(ex, rt)
		if k == "" {
			return false
		}
	}
	return true
}

var getValueRe = regexp.MustCompile(`\(\((.*)\)\)`)

// ReplayPure runs the replay; report is human readable, confirmed says whether the real code violates the clause.
func (ex *Exec) ReplayPure(o *Obligation, ct *Contract, outDir string) (report string, confirmed bool) {
	fn := ex.W.Funcs[ct.Func]
	if o.Kind != "post" || !ex.CanReplay(fn) {
		return "", false
	}
	var clause *Clause
	for i := range ct.Ensures {
		if ct.Ensures[i].Label == o.Label {
			clause = &ct.Ensures[i]
		}
	}
	if clause == nil {
		return "", false
	}
	os.MkdirAll(outDir, 0o755)
	var sb strings.Builder
	// 1. model values
	var params []*replayParam
	var terms []string
	ref := 0
	for _, p := range fn.Params {
		rp := &replayParam{name: p.Name(), goT: p.Type(), kind: replayKind(ex, p.Type())}
		re := regexp.MustCompile(`declare-const (p_` + regexp.QuoteMeta(sanitize(p.Name())) + `_\d+) `)
		for _, d := range o.Decls {
			if m := re.FindStringSubmatch(d); m != nil {
				rp.smt = T{S: m[1], Sort: ex.Sorts.SortOf(p.Type())}
				break
			}
		}
		if rp.smt.S == "" {
			return "replay: parameter " + p.Name() + " not found in the obligation", false
		}
		switch rp.kind {
		case "intv", "bigint":
			terms = append(terms, "(isnil "+rp.smt.S+")", "(val "+rp.smt.S+")")
		case "decv":
			terms = append(terms, "(disnil "+rp.smt.S+")", "(dval "+rp.smt.S+")")
		case "int", "bool":
			terms = append(terms, rp.smt.S)
		case "string", "bytes":
			terms = append(terms, rp.smt.S)
		case "ptr:intv", "ptr:decv", "ptrstruct":
			ref++
			rp.ref = ref
			et := p.Type().Underlying().(*types.Pointer).Elem()
			hname, es := ex.Sorts.Heap(et)
			obj := fmt.Sprintf("(select %s_0 %s)", hname, rp.smt.S)
			_ = es
			terms = append(terms, rp.smt.S)
			switch rp.kind {
			case "ptr:intv":
				terms = append(terms, "(isnil "+obj+")", "(val "+obj+")")
			case "ptr:decv":
				terms = append(terms, "(disnil "+obj+")", "(dval "+obj+")")
			default:
				rp.si = ex.Sorts.StructInfoOf(et)
				for _, f := range rp.si.Fields {
					fk := replayKind(ex, f.Go)
					acc := "(" + f.Acc + " " + obj + ")"
					rp.fields = append(rp.fields, replayField{name: f.Name, goT: f.Go, kind: fk})
					switch fk {
					case "intv":
						terms = append(terms, "(isnil "+acc+")", "(val "+acc+")")
					case "decv":
						terms = append(terms, "(disnil "+acc+")", "(dval "+acc+")")
					default:
						terms = append(terms, acc)
					}
				}
			}
		}
		params = append(params, rp)
	}
	// prefer inputs the library can represent (math.Int <= 256 bits, LegacyDec <= 315 bits), small if possible
	var bounds strings.Builder
	for _, t := range terms {
		if strings.HasPrefix(t, "(val ") {
			fmt.Fprintf(&bounds, "(assert (fits256 %s))\n", t)
		}
		if strings.HasPrefix(t, "(dval ") {
			fmt.Fprintf(&bounds, "(assert (fits315 %s))\n", t)
		}
	}
	base := ex.SMTText(o, false)
	base = strings.Replace(base, "(check-sat)\n", "", 1)
	qf := filepath.Join(outDir, "replay_values.smt2")
	var st, out string
	for _, extra := range []string{bounds.String(), ""} {
		q := base + extra + "(check-sat)\n(get-value (" + strings.Join(terms, " ") + "))\n"
		os.WriteFile(qf, []byte(q), 0o644)
		st, out, _ = runSolver(Solvers[0], qf, 30*time.Second)
		if st != "sat" {
			st, out, _ = runSolver(Solvers[1], qf, 30*time.Second)
		}
		if st == "sat" {
			break
		}
	}
	if st != "sat" {
		return "replay: no model values (solver says " + st + ")", false
	}
	vals, err := parseGetValue(out, len(terms))
	if err != nil {
		return "replay: cannot parse model values: " + err.Error(), false
	}
	// 2. generate and run the Go test
	g := &replayGen{ex: ex, fn: fn, imports: map[string]string{}}
	idx := 0
	next := func() string { v := vals[idx]; idx++; return v }
	var body strings.Builder
	var inputs []string // SMT literal per param (ground evaluation)
	oldHeap := map[string][][2]string{}
	for i, rp := range params {
		an := fmt.Sprintf("a%d", i)
		switch rp.kind {
		case "intv":
			isn, v := next(), next()
			fmt.Fprintf(&body, "\t%s := vrMkInt(%s, %q)\n", an, isn, smtNum(v))
			inputs = append(inputs, fmt.Sprintf("(mkIntV %s %s)", isn, v))
		case "bigint":
			isn, v := next(), next()
			fmt.Fprintf(&body, "\t%s := vrMkBig(%s, %q)\n", an, isn, smtNum(v))
			inputs = append(inputs, fmt.Sprintf("(mkIntV %s %s)", isn, v))
		case "decv":
			isn, v := next(), next()
			fmt.Fprintf(&body, "\t%s := vrMkDec(%s, %q)\n", an, isn, smtNum(v))
			inputs = append(inputs, fmt.Sprintf("(mkDecV %s %s)", isn, v))
		case "int":
			v := next()
			fmt.Fprintf(&body, "\t%s := %s(vrInt64(%q))\n", an, g.typeExpr(rp.goT), smtNum(v))
			inputs = append(inputs, v)
		case "bool":
			v := next()
			fmt.Fprintf(&body, "\t%s := %s\n", an, v)
			inputs = append(inputs, v)
		case "string", "bytes":
			v := next()
			ph := ex.placeholder(v)
			if rp.kind == "bytes" {
				fmt.Fprintf(&body, "\t%s := []byte(%q)\n", an, ph)
			} else {
				fmt.Fprintf(&body, "\t%s := %q\n", an, ph)
			}
			inputs = append(inputs, ex.Lits.Term(ph).S)
		case "ptr:intv", "ptr:decv":
			refv := next()
			isn, v := next(), next()
			ctor, mk := "mkIntV", "vrMkInt"
			if rp.kind == "ptr:decv" {
				ctor, mk = "mkDecV", "vrMkDec"
			}
			et := rp.goT.Underlying().(*types.Pointer).Elem()
			hname, _ := ex.Sorts.Heap(et)
			if refv == "0" {
				fmt.Fprintf(&body, "\tvar %s %s\n", an, g.typeExpr(rp.goT))
				inputs = append(inputs, "0")
			} else {
				fmt.Fprintf(&body, "\t%sv := %s(%s, %q)\n\t%s := &%sv\n", an, mk, isn, smtNum(v), an, an)
				inputs = append(inputs, fmt.Sprint(rp.ref))
				oldHeap[hname] = append(oldHeap[hname], [2]string{fmt.Sprint(rp.ref), fmt.Sprintf("(%s %s %s)", ctor, isn, v)})
			}
		case "ptrstruct":
			refv := next()
			et := rp.goT.Underlying().(*types.Pointer).Elem()
			hname, _ := ex.Sorts.Heap(et)
			var flits []string
			var init strings.Builder
			for fi := range rp.fields {
				f := &rp.fields[fi]
				switch f.kind {
				case "intv":
					isn, v := next(), next()
					fmt.Fprintf(&init, "%s: vrMkInt(%s, %q), ", f.name, isn, smtNum(v))
					flits = append(flits, fmt.Sprintf("(mkIntV %s %s)", isn, v))
				case "decv":
					isn, v := next(), next()
					fmt.Fprintf(&init, "%s: vrMkDec(%s, %q), ", f.name, isn, smtNum(v))
					flits = append(flits, fmt.Sprintf("(mkDecV %s %s)", isn, v))
				case "int":
					v := next()
					fmt.Fprintf(&init, "%s: %s(vrInt64(%q)), ", f.name, g.typeExpr(f.goT), smtNum(v))
					flits = append(flits, v)
				case "bool":
					v := next()
					fmt.Fprintf(&init, "%s: %s, ", f.name, v)
					flits = append(flits, v)
				case "string", "bytes":
					v := next()
					ph := ex.placeholder(v)
					if f.kind == "bytes" {
						fmt.Fprintf(&init, "%s: []byte(%q), ", f.name, ph)
					} else {
						fmt.Fprintf(&init, "%s: %q, ", f.name, ph)
					}
					flits = append(flits, ex.Lits.Term(ph).S)
				default:
					next()
					flits = append(flits, ex.ZeroOf(f.goT).S)
				}
			}
			if refv == "0" {
				fmt.Fprintf(&body, "\tvar %s %s\n", an, g.typeExpr(rp.goT))
				inputs = append(inputs, "0")
			} else {
				fmt.Fprintf(&body, "\t%s := &%s{%s}\n", an, g.typeExpr(et), init.String())
				inputs = append(inputs, fmt.Sprint(rp.ref))
				oldHeap[hname] = append(oldHeap[hname], [2]string{fmt.Sprint(rp.ref), "(" + rp.si.Ctor + " " + strings.Join(flits, " ") + ")"})
			}
		}
	}
	// call
	rs := fn.Signature.Results()
	var rnames []string
	for i := 0; i < rs.Len(); i++ {
		rnames = append(rnames, fmt.Sprintf("r%d", i))
	}
	var argn []string
	for i := range params {
		argn = append(argn, fmt.Sprintf("a%d", i))
	}
	callee := fn.Name()
	if len(rnames) > 0 {
		fmt.Fprintf(&body, "\t%s := %s(%s)\n", strings.Join(rnames, ", "), callee, strings.Join(argn, ", "))
	} else {
		fmt.Fprintf(&body, "\t%s(%s)\n", callee, strings.Join(argn, ", "))
	}
	for i := 0; i < rs.Len(); i++ {
		rt := rs.At(i).Type()
		fmt.Fprintf(&body, "\tfmt.Println(\"REPLAY-RESULT\", %d, %s)\n", i, g.fmtExpr(rnames[i], rt))
	}
	for i, rp := range params {
		switch rp.kind {
		case "ptr:intv":
			fmt.Fprintf(&body, "\tif a%d != nil { fmt.Println(\"REPLAY-POST\", %d, vrFmtInt(*a%d)) }\n", i, i, i)
		case "ptr:decv":
			fmt.Fprintf(&body, "\tif a%d != nil { fmt.Println(\"REPLAY-POST\", %d, vrFmtDec(*a%d)) }\n", i, i, i)
		case "ptrstruct":
			fmt.Fprintf(&body, "\tif a%d != nil { fmt.Println(\"REPLAY-POST\", %d, %s) }\n", i, i, g.fmtStruct(fmt.Sprintf("(*a%d)", i), rp.si))
		}
	}
	src := g.file(body.String())
	testFile := filepath.Join(outDir, "replay_generated_test.go")
	os.WriteFile(testFile, []byte(src), 0o644)
	pkgDir := ex.W.PkgDir[fn.Pkg.Pkg.Path()]
	ov := map[string]map[string]string{"Replace": {filepath.Join(pkgDir, "zz_verif_replay_generated_test.go"): testFile}}
	ovb, _ := json.Marshal(ov)
	ovFile := filepath.Join(outDir, "replay_overlay.json")
	os.WriteFile(ovFile, ovb, 0o644)
	ctx, cancel := context.WithTimeout(context.Background(), 240*time.Second)
	defer cancel()
	cmd := exec.CommandContext(ctx, "go", "test", "-overlay", ovFile, "-vet=off", "-count=1", "-v", "-timeout", "120s", "-run", "TestVerifReplayGenerated$", ".")
	cmd.Dir = pkgDir
	cmd.Env = append(os.Environ(), "GOFLAGS=-mod=mod", "GOPROXY=off", "GOSUMDB=off", "GOTOOLCHAIN=local")
	var buf bytes.Buffer
	cmd.Stdout, cmd.Stderr = &buf, &buf
	_ = cmd.Run()
	gout := buf.String()
	fmt.Fprintf(&sb, "model inputs: %s\nreplay test: %s (run with go test -overlay %s in %s)\n", strings.Join(inputs, " "), testFile, ovFile, pkgDir)
	results := map[int]string{}
	posts := map[int]string{}
	panicked := ""
	for _, line := range strings.Split(gout, "\n") {
		f := strings.SplitN(strings.TrimSpace(line), " ", 3)
		if len(f) == 3 && f[0] == "REPLAY-RESULT" {
			var i int
			fmt.Sscan(f[1], &i)
			results[i] = f[2]
		}
		if len(f) == 3 && f[0] == "REPLAY-POST" {
			var i int
			fmt.Sscan(f[1], &i)
			posts[i] = f[2]
		}
		if strings.HasPrefix(line, "REPLAY-PANIC") {
			panicked = line
		}
	}
	if panicked != "" {
		fmt.Fprintf(&sb, "real code panicked on the model inputs: %s\n(partial correctness: a panicking call satisfies the postcondition vacuously)\n", panicked)
		return sb.String(), false
	}
	if len(results) != rs.Len() {
		fmt.Fprintf(&sb, "replay test did not produce results:\n%s\n", truncate(gout, 1500))
		return sb.String(), false
	}
	// 3. ground evaluation of the clause on (model inputs, real outputs)
	cur := ex.NewState()
	old := ex.NewState()
	vars := map[string]Val{}
	for i, rp := range params {
		t := T{S: inputs[i], Sort: ex.Sorts.SortOf(rp.goT), Go: rp.goT}
		vars[rp.name] = t
	}
	for hname, ents := range oldHeap {
		h0 := T{S: hname + "_0", Sort: "(Array Int " + ex.Sorts.heaps[hname] + ")"}
		ho, hc := h0, h0
		for _, e := range ents {
			ho = Store(ho, T{S: e[0], Sort: SInt}, T{S: e[1], Sort: ex.Sorts.heaps[hname]})
		}
		hc = ho
		old.heaps[hname] = ho
		cur.heaps[hname] = hc
	}
	for i, rp := range params {
		if pv, ok := posts[i]; ok {
			et := rp.goT.Underlying().(*types.Pointer).Elem()
			hname, es := ex.Sorts.Heap(et)
			h := cur.heaps[hname]
			if h.S == "" {
				h = T{S: hname + "_0", Sort: "(Array Int " + es + ")"}
			}
			cur.heaps[hname] = Store(h, T{S: fmt.Sprint(rp.ref), Sort: SInt}, T{S: pv, Sort: es})
		}
	}
	_, rn := paramNames(fn.Signature, fn)
	nref := 100
	for i := 0; i < rs.Len(); i++ {
		rt := rs.At(i).Type()
		lit := results[i]
		if pt, ok := rt.Underlying().(*types.Pointer); ok && !isBigIntPtr(rt) {
			// pointer result: "nil" or a struct literal
			if lit == "nil" {
				lit = "0"
			} else {
				nref++
				hname, es := ex.Sorts.Heap(pt.Elem())
				h := cur.heaps[hname]
				if h.S == "" {
					h = T{S: hname + "_0", Sort: "(Array Int " + es + ")"}
				}
				cur.heaps[hname] = Store(h, T{S: fmt.Sprint(nref), Sort: SInt}, T{S: lit, Sort: es})
				lit = fmt.Sprint(nref)
			}
		}
		t := T{S: lit, Sort: ex.Sorts.SortOf(rt), Go: rt}
		vars[rn[i]] = t
		if rs.Len() == 1 {
			vars["result"] = t
		}
	}
	env := &SpecEnv{ex: ex, vars: vars, cur: cur, old: old, pkg: ct.Pkg, bound: map[string]T{}}
	f, err := env.TrBool(clause.Expr)
	if err != nil {
		fmt.Fprintf(&sb, "real outputs: %v %v\nclause could not be evaluated on the real outputs: %v\n", results, posts, err)
		return sb.String(), false
	}
	g2 := &Obligation{Name: "replay-ground", Kind: "replay", Decls: append(append([]string(nil), old.decls...), cur.decls...), PC: append(append([]T(nil), old.pc...), cur.pc...), Goal: f}
	gf := filepath.Join(outDir, "replay_ground.smt2")
	os.WriteFile(gf, []byte(ex.SMTText(g2, false)), 0o644)
	gst, _, _ := runSolver(Solvers[0], gf, 30*time.Second)
	fmt.Fprintf(&sb, "real outputs: results=%v post-state of pointer arguments=%v\nclause %q evaluated on (model inputs, real outputs): ", results, posts, clause.Src)
	switch gst {
	case "sat":
		sb.WriteString("FALSE\nREPLAY-CONFIRMED: the real code violates the clause on the solver's input\n")
		return sb.String(), true
	case "unsat":
		sb.WriteString("TRUE (the real code satisfies the clause on this input: the symbolic counterexample does not replay)\n")
	default:
		sb.WriteString("undecided (" + gst + ")\n")
	}
	return sb.String(), false
}

// placeholder maps a model value of sort Bytes to a concrete printable string (distinct values, distinct strings).
func (ex *Exec) placeholder(modelVal string) string {
	if ex.placeholders == nil {
		ex.placeholders = map[string]string{}
	}
	if s, ok := ex.placeholders[modelVal]; ok {
		return s
	}
	if s, ok := ex.Lits.Lookup(T{S: modelVal}); ok {
		ex.placeholders[modelVal] = s
		return s
	}
	s := fmt.Sprintf("verif-str-%d", len(ex.placeholders)+1)
	ex.placeholders[modelVal] = s
	return s
}

func smtNum(s string) string {
	s = strings.TrimSpace(s)
	if strings.HasPrefix(s, "(- ") {
		return "-" + strings.TrimSuffix(strings.TrimPrefix(s, "(- "), ")")
	}
	return s
}

// parseGetValue extracts the n values of a (get-value (...)) answer, in order.
func parseGetValue(out string, n int) ([]string, error) {
	i := strings.Index(out, "((")
	if i < 0 {
		return nil, fmt.Errorf("no get-value answer")
	}
	sx, err := parseSexprs(out[i:])
	if err != nil || len(sx) == 0 {
		return nil, fmt.Errorf("unparsable get-value answer")
	}
	var vals []string
	for _, pair := range sx[0].list {
		if len(pair.list) != 2 {
			return nil, fmt.Errorf("bad pair %s", pair.String())
		}
		vals = append(vals, pair.list[1].String())
	}
	if len(vals) != n {
		return nil, fmt.Errorf("expected %d values, got %d", n, len(vals))
	}
	return vals, nil
}

type replayGen struct {
	ex      *Exec
	fn      *ssa.Function
	imports map[string]string // path -> alias
}

func (g *replayGen) qual(p *types.Package) string {
	if p == nil || p.Path() == g.fn.Pkg.Pkg.Path() {
		return ""
	}
	if a, ok := g.imports[p.Path()]; ok {
		return a
	}
	a := fmt.Sprintf("vrpkg%d", len(g.imports))
	g.imports[p.Path()] = a
	return a
}

func (g *replayGen) typeExpr(t types.Type) string {
	return types.TypeString(t, func(p *types.Package) string { return g.qual(p) })
}

func (g *replayGen) fmtExpr(v string, t types.Type) string {
	if types.TypeString(t, nil) == "error" {
		return "vrFmtErr(" + v + ")"
	}
	switch replayKind(g.ex, t) {
	case "intv":
		return "vrFmtInt(" + v + ")"
	case "decv":
		return "vrFmtDec(" + v + ")"
	case "bigint":
		return "vrFmtBig(" + v + ")"
	case "int":
		return "vrFmtI(int64(" + v + "))"
	case "bool":
		return v
	case "ptrstruct":
		si := g.ex.Sorts.StructInfoOf(t.Underlying().(*types.Pointer).Elem())
		return "func() string { if " + v + " == nil { return \"nil\" }; return " + g.fmtStruct("(*"+v+")", si) + " }()"
	}
	return "\"?\""
}

func (g *replayGen) fmtStruct(v string, si *StructInfo) string {
	parts := []string{fmt.Sprintf("%q", "("+si.Ctor)}
	for _, f := range si.Fields {
		switch replayKind(g.ex, f.Go) {
		case "intv":
			parts = append(parts, "vrFmtInt("+v+"."+f.Name+")")
		case "decv":
			parts = append(parts, "vrFmtDec("+v+"."+f.Name+")")
		case "int":
			parts = append(parts, "vrFmtI(int64("+v+"."+f.Name+"))")
		case "bool":
			parts = append(parts, "fmt.Sprint("+v+"."+f.Name+")")
		case "string":
			parts = append(parts, "vrFmtStr("+v+"."+f.Name+")")
		case "bytes":
			parts = append(parts, "vrFmtStr(string("+v+"."+f.Name+"))")
		default:
			parts = append(parts, fmt.Sprintf("%q", g.ex.ZeroOf(f.Go).S))
		}
	}
	return "strings.Join([]string{" + strings.Join(parts, ", ") + "}, \" \") + \")\""
}

func (g *replayGen) file(body string) string {
	var sb strings.Builder
	fmt.Fprintf(&sb, "package %s\n\n// generated by exovc: replay of a solver counterexample on the real function (never written into /repo)\n\nimport (\n\t\"fmt\"\n\t\"math/big\"\n\t\"strings\"\n\t\"testing\"\n\n\tvrmath \"cosmossdk.io/math\"\n", g.fn.Pkg.Pkg.Name())
	for p, a := range g.imports {
		fmt.Fprintf(&sb, "\t%s %q\n", a, p)
	}
	sb.WriteString(")\n\n")
	sb.WriteString(`var _ = strings.Join
var _ = big.NewInt

func vrBig(s string) *big.Int { b, _ := new(big.Int).SetString(s, 10); return b }
func vrInt64(s string) int64 { return vrBig(s).Int64() }
func vrMkInt(isnil bool, s string) vrmath.Int {
	if isnil {
		return vrmath.Int{}
	}
	return vrmath.NewIntFromBigInt(vrBig(s))
}
func vrMkBig(isnil bool, s string) *big.Int {
	if isnil {
		return nil
	}
	return vrBig(s)
}
func vrMkDec(isnil bool, s string) vrmath.LegacyDec {
	if isnil {
		return vrmath.LegacyDec{}
	}
	return vrmath.LegacyNewDecFromBigIntWithPrec(vrBig(s), 18)
}
func vrNum(b *big.Int) string {
	if b.Sign() < 0 {
		return "(- " + new(big.Int).Neg(b).String() + ")"
	}
	return b.String()
}
func vrFmtI(n int64) string { return vrNum(big.NewInt(n)) }
func vrFmtInt(x vrmath.Int) string {
	if x.IsNil() {
		return "(mkIntV true 0)"
	}
	return "(mkIntV false " + vrNum(x.BigInt()) + ")"
}
func vrFmtBig(x *big.Int) string {
	if x == nil {
		return "(mkIntV true 0)"
	}
	return "(mkIntV false " + vrNum(x) + ")"
}
func vrFmtDec(x vrmath.LegacyDec) string {
	if x.IsNil() {
		return "(mkDecV true 0)"
	}
	return "(mkDecV false " + vrNum(x.BigInt()) + ")"
}
func vrFmtErr(err error) string {
	if err == nil {
		return "inil"
	}
	return "(imk 1 1)"
}
`)
	sb.WriteString("func vrFmtStr(s string) string {\n\tswitch s {\n")
	for mv, ph := range g.ex.placeholders {
		fmt.Fprintf(&sb, "\tcase %q:\n\t\treturn %q\n", ph, g.ex.Lits.Term(ph).S)
		_ = mv
	}
	sb.WriteString("\t}\n\treturn \"(bopq 999)\"\n}\n\n")
	sb.WriteString("func TestVerifReplayGenerated(t *testing.T) {\n\tdefer func() {\n\t\tif r := recover(); r != nil {\n\t\t\tfmt.Println(\"REPLAY-PANIC\", r)\n\t\t}\n\t}()\n")
	sb.WriteString(body)
	sb.WriteString("}\n")
	return sb.String()
}
