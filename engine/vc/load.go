package vc

import (
	"fmt"
	"go/types"
	"os"
	"path/filepath"
	"sort"
	"strings"

	"golang.org/x/tools/go/packages"
	"golang.org/x/tools/go/ssa"
	"golang.org/x/tools/go/ssa/ssautil"
)

const RepoModule = "github.com/ExocoreNetwork/exocore"

// World is everything loaded from /repo for one run.
type World struct {
	RepoDir string
	Pkgs    []*packages.Package
	Prog    *ssa.Program
	SSAPkgs map[string]*ssa.Package  // by import path
	Funcs   map[string]*ssa.Function // by qualified name (ssa.Function.String())
	PkgDir  map[string]string        // import path -> directory
}

// Load type-checks the given package patterns (relative to repoDir) and builds SSA for them.
func Load(repoDir string, patterns []string) (*World, error) {
	cfg := &packages.Config{
		Dir: repoDir,
		Mode: packages.NeedName | packages.NeedFiles | packages.NeedCompiledGoFiles | packages.NeedImports |
			packages.NeedTypes | packages.NeedTypesSizes | packages.NeedSyntax | packages.NeedTypesInfo,
		Env: append(os.Environ(), "GOFLAGS=-mod=mod", "GOPROXY=off", "GOSUMDB=off", "GOTOOLCHAIN=local"),
	}
	pkgs, err := packages.Load(cfg, patterns...)
	if err != nil {
		return nil, err
	}
	var errs []string
	for _, p := range pkgs {
		for _, e := range p.Errors {
			errs = append(errs, e.Error())
		}
	}
	if len(errs) > 0 {
		return nil, fmt.Errorf("load errors: %s", strings.Join(errs, "; "))
	}
	prog, spkgs := ssautil.Packages(pkgs, ssa.InstantiateGenerics|ssa.GlobalDebug)
	w := &World{RepoDir: repoDir, Pkgs: pkgs, Prog: prog, SSAPkgs: map[string]*ssa.Package{}, Funcs: map[string]*ssa.Function{}, PkgDir: map[string]string{}}
	for i, sp := range spkgs {
		if sp == nil {
			continue
		}
		sp.Build()
		w.SSAPkgs[pkgs[i].PkgPath] = sp
		if len(pkgs[i].GoFiles) > 0 {
			w.PkgDir[pkgs[i].PkgPath] = filepath.Dir(pkgs[i].GoFiles[0])
		}
		w.indexPackage(sp)
	}
	return w, nil
}

func (w *World) indexPackage(sp *ssa.Package) {
	var add func(f *ssa.Function)
	add = func(f *ssa.Function) {
		if f == nil || f.Blocks == nil {
			return
		}
		w.Funcs[f.String()] = f
		for _, af := range f.AnonFuncs {
			add(af)
		}
	}
	for _, m := range sp.Members {
		switch m := m.(type) {
		case *ssa.Function:
			add(m)
		case *ssa.Type:
			for _, t := range []types.Type{m.Type(), types.NewPointer(m.Type())} {
				ms := w.Prog.MethodSets.MethodSet(t)
				for i := 0; i < ms.Len(); i++ {
					f := w.Prog.MethodValue(ms.At(i))
					if f != nil && f.Pkg == sp && f.Synthetic == "" {
						add(f)
					}
				}
			}
		}
	}
}

// FuncNames returns the sorted qualified names of all functions with bodies.
func (w *World) FuncNames() []string {
	var xs []string
	for k := range w.Funcs {
		xs = append(xs, k)
	}
	sort.Strings(xs)
	return xs
}

// Qualify turns a contract-file function designator into the ssa qualified name.
//
//	"UpdateAssetValue"            -> "<pkg>.UpdateAssetValue"
//	"(Keeper).Foo"                -> "(<pkg>.Keeper).Foo"
//	"(*Keeper).Foo"               -> "(*<pkg>.Keeper).Foo"
func Qualify(pkgPath, designator string) string {
	d := strings.TrimSpace(designator)
	if strings.HasPrefix(d, "(") {
		i := strings.Index(d, ")")
		recv := d[1:i]
		rest := d[i+1:]
		if strings.HasPrefix(recv, "*") {
			return "(*" + pkgPath + "." + recv[1:] + ")" + rest
		}
		return "(" + pkgPath + "." + recv + ")" + rest
	}
	return pkgPath + "." + d
}

// ShortName strips the module prefix for display.
func ShortName(q string) string {
	return strings.ReplaceAll(q, RepoModule+"/", "")
}
