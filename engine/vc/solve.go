package vc

import (
	"bytes"
	"context"
	"fmt"
	"os"
	"os/exec"
	"path/filepath"
	"strings"
	"sync"
	"time"
)

// Result of solving one obligation.
type SolveResult struct {
	Obl      *Obligation
	Status   string // unsat | sat | unknown | timeout | error
	Backend  string
	Seconds  float64
	WinSecs  float64 // time taken by the solver that decided the obligation
	File     string
	Output   string
	Attempts []string
}

// SMTText renders the complete SMT-LIB2 query of an obligation.
func (ex *Exec) SMTText(o *Obligation, wantModel bool) string {
	var sb strings.Builder
	sb.WriteString("(set-option :produce-models true)\n(set-logic ALL)\n")
	fmt.Fprintf(&sb, "; obligation: %s\n; kind: %s\n; source: %s\n", o.Name, o.Kind, strings.ReplaceAll(o.Src, "\n", " "))
	if o.Kind == "lemma" || strings.HasPrefix(o.Func, "lemma:") {
		// lemmas are closed goals over the spec functions: keep the context minimal (nonlinear proofs are
		// sensitive to irrelevant declarations): only the declarations and spec functions the lemma mentions
		var body strings.Builder
		for _, p := range o.PC {
			body.WriteString(p.S)
			body.WriteString("\n")
		}
		body.WriteString(o.Goal.S)
		body.WriteString("\n")
		keep := make([]bool, len(o.Decls))
		for i := len(o.Decls) - 1; i >= 0; i-- {
			if sx, err := parseSexprs(o.Decls[i]); err == nil && len(sx) == 1 && len(sx[0].list) > 1 && mentionsSym(body.String(), sx[0].list[1].atom) {
				keep[i] = true
				body.WriteString(o.Decls[i])
				body.WriteString("\n")
			}
		}
		sb.WriteString(ex.Prelude.Slice(body.String()))
		for i, d := range o.Decls {
			if !keep[i] {
				continue
			}
			sb.WriteString(d)
			sb.WriteString("\n")
		}
		for _, p := range o.PC {
			fmt.Fprintf(&sb, "(assert %s)\n", p.S)
		}
		fmt.Fprintf(&sb, "(assert (not %s))\n(check-sat)\n", o.Goal.S)
		if wantModel {
			sb.WriteString("(get-model)\n")
		}
		return sb.String()
	}
	sb.WriteString(ex.Prelude.Text)
	sb.WriteString(ex.Sorts.Decls())
	for _, n := range ex.funOrder {
		sb.WriteString(ex.funDecls[n])
		sb.WriteString("\n")
	}
	sb.WriteString("(declare-const REF0 Int)\n(declare-const CELL0 Int)\n(declare-const TIME_ZERO Int)\n(assert (> REF0 0))\n(assert (> CELL0 0))\n")
	for _, n := range ex.heapOrder {
		fmt.Fprintf(&sb, "(declare-const %s_0 %s)\n", n, ex.heapSorts[n])
	}
	for _, a := range ex.axioms {
		sb.WriteString(a)
		sb.WriteString("\n")
	}
	sb.WriteString(ex.Lits.Axioms())
	for _, d := range o.Decls {
		sb.WriteString(d)
		sb.WriteString("\n")
	}
	for _, p := range o.PC {
		if o.Cover && (strings.Contains(p.S, "(forall ") || strings.Contains(p.S, "(exists ")) {
			// reachability covers are decided on the quantifier-free part of the path condition (solvers do not
			// return sat under quantifiers); quantified conjuncts come from callee contracts and invariants
			fmt.Fprintf(&sb, "; (cover: quantified conjunct dropped) %s\n", truncate(p.S, 200))
			continue
		}
		fmt.Fprintf(&sb, "(assert %s)\n", p.S)
	}
	if !o.Cover {
		// witness constants for the universally quantified goal, hypotheses instantiated at them (skolem.go)
		sk := skolemizeGoal(o.Goal.S, "g")
		if len(sk.Decls) > 0 {
			for _, d := range sk.Decls {
				sb.WriteString(d)
				sb.WriteString("\n")
			}
			for _, a := range sk.Asserts {
				fmt.Fprintf(&sb, "(assert %s)\n", a)
			}
			seen := map[string]bool{}
			for _, p := range o.PC {
				for _, inst := range instancesOf(p.S, sk.Consts) {
					if !seen[inst] {
						seen[inst] = true
						fmt.Fprintf(&sb, "(assert %s) ; instance at goal witness\n", inst)
					}
				}
			}
			fmt.Fprintf(&sb, "(assert (not %s))\n(check-sat)\n", sk.Rest)
			if wantModel {
				sb.WriteString("(get-model)\n")
			}
			return sb.String()
		}
	}
	fmt.Fprintf(&sb, "(assert (not %s))\n(check-sat)\n", o.Goal.S)
	if wantModel {
		sb.WriteString("(get-model)\n")
	}
	return sb.String()
}

type Solver struct {
	Name string
	Args func(file string, timeout time.Duration) []string
}

// CoverTimeout bounds the solver time spent on a reachability cover.
var CoverTimeout = 5 * time.Second

// SolverSeed is passed to the z3 back ends as smt.random_seed (0 = solver default); only the baseline
// admission run varies it, to detect obligations whose proof time is unstable.
var SolverSeed = 0

var Solvers = []Solver{
	{"z3-new", func(f string, t time.Duration) []string {
		return []string{"z3-new", fmt.Sprintf("-T:%d", int(t.Seconds())+1), fmt.Sprintf("smt.random_seed=%d", SolverSeed), f}
	}},
	{"z3", func(f string, t time.Duration) []string {
		return []string{"z3", fmt.Sprintf("-T:%d", int(t.Seconds())+1), fmt.Sprintf("smt.random_seed=%d", SolverSeed), f}
	}},
	{"cvc5", func(f string, t time.Duration) []string {
		return []string{"cvc5", "--lang", "smt2", fmt.Sprintf("--tlimit=%d", t.Milliseconds()), f}
	}},
}

func runSolver(s Solver, file string, timeout time.Duration) (status string, out string, secs float64) {
	return runSolverCtx(context.Background(), s, file, timeout)
}

func runSolverCtx(parent context.Context, s Solver, file string, timeout time.Duration) (status string, out string, secs float64) {
	ctx, cancel := context.WithTimeout(parent, timeout+2*time.Second)
	defer cancel()
	a := s.Args(file, timeout)
	cmd := exec.CommandContext(ctx, a[0], a[1:]...)
	var buf bytes.Buffer
	cmd.Stdout = &buf
	cmd.Stderr = &buf
	t0 := time.Now()
	_ = cmd.Run()
	secs = time.Since(t0).Seconds()
	out = buf.String()
	first := strings.TrimSpace(strings.SplitN(out, "\n", 2)[0])
	switch first {
	case "unsat", "sat", "unknown":
		return first, out, secs
	case "timeout":
		return "timeout", out, secs
	}
	if parent.Err() != nil {
		return "cancelled", out, secs
	}
	if ctx.Err() != nil || strings.Contains(out, "timeout") || strings.Contains(out, "interrupted") {
		return "timeout", out, secs
	}
	return "error", out, secs
}

// SolveAll discharges obligations in parallel. dir receives one .smt2 file per obligation.
func (ex *Exec) SolveAll(obls []*Obligation, dir string, timeout time.Duration, par int, crossCheck bool) []*SolveResult {
	os.MkdirAll(dir, 0o755)
	results := make([]*SolveResult, len(obls))
	sem := make(chan struct{}, par)
	var wg sync.WaitGroup
	for i, o := range obls {
		wg.Add(1)
		go func(i int, o *Obligation) {
			defer wg.Done()
			sem <- struct{}{}
			defer func() { <-sem }()
			results[i] = ex.solveOne(o, dir, i, timeout, crossCheck)
		}(i, o)
	}
	wg.Wait()
	return results
}

func (ex *Exec) solveOne(o *Obligation, dir string, idx int, timeout time.Duration, crossCheck bool) *SolveResult {
	if o.Cover && timeout > CoverTimeout {
		// reachability covers are diagnostics (vacuity, dead return sites), never claimed: a short budget is enough
		timeout = CoverTimeout
	}
	file := filepath.Join(dir, fmt.Sprintf("o%04d_%s.smt2", idx, sanitize(truncate(o.Name, 80))))
	want := "unsat"
	if o.Cover {
		want = "sat"
	}
	text := ex.SMTText(o, false)
	os.WriteFile(file, []byte(text), 0o644)
	r := &SolveResult{Obl: o, File: file, Status: "unknown"}
	t0 := time.Now()
	// stage 1: z3-new alone for a short time (most obligations are decided in milliseconds)
	first := 2 * time.Second
	if first > timeout {
		first = timeout
	}
	st, out, secs := runSolver(Solvers[0], file, first)
	r.Attempts = append(r.Attempts, fmt.Sprintf("%s:%s:%.2fs", Solvers[0].Name, st, secs))
	if st == "unsat" || st == "sat" {
		r.Status, r.Backend, r.Output, r.WinSecs = st, Solvers[0].Name, out, secs
	} else {
		// stage 2: race all solvers with the full budget; the first definitive answer wins
		type res struct {
			s    Solver
			st   string
			out  string
			secs float64
		}
		ctx, cancel := context.WithCancel(context.Background())
		ch := make(chan res, len(Solvers))
		for _, s := range Solvers {
			go func(s Solver) {
				st, out, secs := runSolverCtx(ctx, s, file, timeout)
				ch <- res{s, st, out, secs}
			}(s)
		}
		for range Solvers {
			x := <-ch
			if x.st != "cancelled" {
				r.Attempts = append(r.Attempts, fmt.Sprintf("%s:%s:%.2fs", x.s.Name, x.st, x.secs))
			}
			if (x.st == "unsat" || x.st == "sat") && r.Backend == "" {
				r.Status, r.Backend, r.Output, r.WinSecs = x.st, x.s.Name, x.out, x.secs
				cancel()
			} else if r.Backend == "" && x.st != "cancelled" {
				if x.st == "timeout" {
					r.Status = "timeout"
				}
				r.Output += x.s.Name + ": " + truncate(x.out, 300) + "\n"
			}
		}
		cancel()
	}
	if crossCheck && r.Status == want && want == "unsat" {
		// confirm with a second solver
		for _, s := range Solvers {
			if s.Name == r.Backend {
				continue
			}
			st2, _, secs2 := runSolver(s, file, timeout)
			r.Attempts = append(r.Attempts, fmt.Sprintf("confirm %s:%s:%.2fs", s.Name, st2, secs2))
			if st2 == "unsat" {
				r.Backend += "+" + s.Name
				break
			}
			if st2 == "sat" {
				r.Status = "error"
				r.Output = "solver disagreement: " + r.Backend + " unsat, " + s.Name + " sat"
				break
			}
		}
	}
	r.Seconds = time.Since(t0).Seconds()
	return r
}

// ModelFor re-runs a sat obligation with (get-model) and returns the model text.
func (ex *Exec) ModelFor(o *Obligation, dir string, timeout time.Duration) (string, string) {
	file := filepath.Join(dir, "model_"+sanitize(truncate(o.Name, 80))+".smt2")
	os.WriteFile(file, []byte(ex.SMTText(o, true)), 0o644)
	for _, s := range Solvers[:2] {
		st, out, _ := runSolver(s, file, timeout)
		if st == "sat" {
			return out, file
		}
	}
	return "", file
}
