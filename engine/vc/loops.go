package vc

import (
	"fmt"
	"go/ast"
	"go/types"
	"sort"
	"strings"

	"golang.org/x/tools/go/ssa"
)

// loopEnv builds the spec environment for invariants of the loop headed by b.
func (fr *frame) loopEnv(st *PState, b *ssa.BasicBlock) *SpecEnv {
	tc := fr.top
	vars := map[string]Val{}
	for k, v := range tc.entryVars {
		vars[k] = v
	}
	// named locals (address-taken variables) of the function
	for _, blk := range fr.fn.Blocks {
		for _, ins := range blk.Instrs {
			if a, ok := ins.(*ssa.Alloc); ok && a.Comment != "" {
				if pv, ok := st.env[a].(*PtrVal); ok {
					func() {
						defer func() { recover() }()
						vars[a.Comment] = st.LoadPtr(pv)
					}()
				}
			}
		}
	}
	for name, v := range fr.namedLocals(st, b, 0) {
		if _, taken := vars[name]; !taken {
			vars[name] = v
		}
	}
	// loop-carried values: phis of the header, by source variable name
	n := 0
	for _, ins := range b.Instrs {
		phi, ok := ins.(*ssa.Phi)
		if !ok {
			break
		}
		n++
		if v, ok := st.env[phi]; ok {
			if phi.Comment != "" {
				vars[phi.Comment] = v
			}
			vars[fmt.Sprintf("phi%d", n)] = v
		}
	}
	// loop-carried values of the enclosing loops: outer_<name> (nearest), outer2_<name>, ...
	type encl struct {
		h    *ssa.BasicBlock
		size int
	}
	var outs []encl
	for h, body := range fr.loopBody {
		if h != b && body[b] {
			outs = append(outs, encl{h, len(body)})
		}
	}
	sort.Slice(outs, func(i, j int) bool {
		if outs[i].size != outs[j].size {
			return outs[i].size < outs[j].size
		}
		return outs[i].h.Index < outs[j].h.Index
	})
	for k, o := range outs {
		pfx := "outer_"
		if k > 0 {
			pfx = fmt.Sprintf("outer%d_", k+1)
		}
		for _, ins := range o.h.Instrs {
			phi, ok := ins.(*ssa.Phi)
			if !ok {
				break
			}
			if v, ok := st.env[phi]; ok && phi.Comment != "" {
				vars[pfx+phi.Comment] = v
			}
		}
	}
	// iterators and ranges in scope
	for _, it := range st.Iters() {
		vars["it_idx"] = st.cells[it.IdxID]
		vars["it_n"] = it.N
		vars["it_seq"] = it.Seq
	}
	for name, res := range st.callRes {
		if tv, ok := res.(*TupleVal); ok {
			for i, e := range tv.Elems {
				vars[fmt.Sprintf("res_%s_%d", name, i)] = e
			}
		} else {
			vars["res_"+name+"_0"] = res
		}
	}
	for _, x := range st.env {
		switch it := x.(type) {
		case *RangeVal:
			vars["rng_idx"] = st.cells[it.IdxC]
			vars["rng_n"] = it.N
			vars["rng_seq"] = it.Seq
		}
	}
	return &SpecEnv{ex: fr.ex, vars: vars, cur: st, old: tc.entry, pkg: tc.contract.Pkg, bound: map[string]T{}}
}

func (fr *frame) assertInvariants(st *PState, b *ssa.BasicBlock, ord int, invs []Clause, kind string) {
	tc := fr.top
	env := fr.loopEnv(st, b).Goal()
	for i, c := range invs {
		t, err := env.TrBool(c.Expr)
		if err != nil {
			tc.clauseErr(c.Label, fmt.Sprintf("loop %d invariant %q: %v", ord, c.Src, err))
			continue
		}
		label := c.Label
		o := &Obligation{Name: fmt.Sprintf("%s/%s/%s:loop%d.%d", ShortName(tc.fn.String()), label, kind, ord, i+1), Func: tc.fn.String(), Label: label,
			Kind: kind, Decls: append([]string(nil), st.decls...), PC: append([]T(nil), st.pc...), Goal: t, Src: "invariant " + c.Src}
		tc.addObl(o)
	}
}

// havocLoop forgets everything the loop body may assign.
func (fr *frame) havocLoop(st *PState, b *ssa.BasicBlock, ord int) {
	for _, ins := range b.Instrs {
		phi, ok := ins.(*ssa.Phi)
		if !ok {
			break
		}
		cur := st.env[phi]
		switch cur.(type) {
		case T:
			st.env[phi] = st.FreshOf("loop_"+phi.Comment, phi.Type())
		default:
			// executor-level value: must be loop-invariant
			for _, e := range phi.Edges {
				if e != phi.Edges[0] {
					if _, isT := fr.valOrNil(st, e).(T); !isT {
						bail("loop-carried non-term value %s", phi.Name())
					}
				}
			}
		}
	}
	impure := false
	stateMod := false
	traceMod := false
	var views []*ViewVal
	for blk := range fr.loopBody[b] {
		for _, ins := range blk.Instrs {
			switch ins := ins.(type) {
			case *ssa.Store:
				switch p := fr.valOrNil(st, ins.Addr).(type) {
				case *PtrVal:
					fr.havocPtrRoot(st, p)
				case T:
					et := ins.Addr.Type().Underlying().(*types.Pointer).Elem()
					name, h := st.Heap(et)
					st.SetHeap(name, st.Fresh(name+"_loop", h.Sort))
				default:
					// address computed inside the loop: havoc by static type
					et := ins.Addr.Type().Underlying().(*types.Pointer).Elem()
					fr.havocByAddrExpr(st, ins.Addr, et)
				}
			case *ssa.MapUpdate:
				mt := ins.Map.Type().Underlying().(*types.Map)
				dn, d, vn, v, _, _ := st.mapHeaps(mt)
				st.heaps[dn] = st.Fresh(dn+"_loop", d.Sort)
				st.heaps[vn] = st.Fresh(vn+"_loop", v.Sort)
			case ssa.CallInstruction:
				c := ins.Common()
				if _, isB := c.Value.(*ssa.Builtin); isB {
					if c.Value.Name() == "delete" {
						mt := c.Args[0].Type().Underlying().(*types.Map)
						dn, d, _, _, _, _ := st.mapHeaps(mt)
						st.heaps[dn] = st.Fresh(dn+"_loop", d.Sort)
					}
					continue
				}
				// the codec writes through its target pointer: a target that lives outside the loop changes
				if c.IsInvoke() && len(c.Args) == 2 && (strings.HasPrefix(c.Method.Name(), "MustUnmarshal") || strings.HasPrefix(c.Method.Name(), "Unmarshal")) {
					if mi, ok := c.Args[1].(*ssa.MakeInterface); ok {
						if pt, isPtr := mi.X.Type().Underlying().(*types.Pointer); isPtr {
							switch p := fr.valOrNil(st, mi.X).(type) {
							case *PtrVal:
								fr.havocPtrRoot(st, p)
							case T:
								name, h := st.Heap(pt.Elem())
								st.SetHeap(name, st.Fresh(name+"_loop", h.Sort))
							default:
								if a, isAlloc := mi.X.(*ssa.Alloc); !isAlloc || !fr.loopBody[b][a.Block()] {
									name, h := st.Heap(pt.Elem())
									st.SetHeap(name, st.Fresh(name+"_loop", h.Sort))
								}
							}
						}
					}
				}
				eff := fr.callEffects(st, c, 0)
				for _, v := range eff.views {
					views = append(views, v)
				}
				if eff.unknown {
					impure = true
				}
				if eff.state {
					stateMod = true
				}
				if eff.trace {
					traceMod = true
				}
				for _, gn := range eff.ghosts {
					st.SetGhost(gn, st.Fresh("gh_loop_"+sanitize(gn), SInt))
				}
				for _, ht := range eff.heapTypes {
					name, h := st.Heap(ht)
					st.SetHeap(name, st.Fresh(name+"_loop", h.Sort))
					// objects of this type held in local cells (address-taken locals) may be written too
					for id, cv := range st.cells {
						if f, ok := cv.(*fwdCell); ok {
							_ = f
							continue
						}
						if t, ok := cv.(T); ok && t.Go != nil && types.Identical(t.Go, ht) {
							st.cells[id] = st.FreshOf("loopcell", ht)
						}
					}
				}
			}
		}
	}
	// store writes through views that exist before the loop: only those (cell, store) pairs change
	for _, v := range views {
		state := Select(st.kv, v.Cell, SState)
		st.kv = st.Name("kv", Store(st.kv, v.Cell, Store(state, v.Store, st.Fresh("store_loop", SStore))))
	}
	if stateMod && !impure {
		st.kv = st.Fresh("kv_loop", SKV)
	}
	if traceMod && !impure {
		n := st.Fresh("traceN_loop", SInt)
		st.Assume(App(SBool, ">=", n, st.traceN))
		st.traceN = n
		st.trace = st.Fresh("trace_loop", "(Array Int Ev)")
	}
	// iterator / range positions advance inside loops
	for _, it := range st.Iters() {
		nv := st.Fresh("itidx_loop", SInt)
		st.Assume(And(App(SBool, "<=", IntLit(0), nv), App(SBool, "<=", nv, it.N)))
		st.cells[it.IdxID] = nv
	}
	for _, x := range st.env {
		switch it := x.(type) {
		case *RangeVal:
			nv := st.Fresh("rngidx_loop", SInt)
			st.Assume(And(App(SBool, "<=", IntLit(0), nv), App(SBool, "<=", nv, it.N)))
			st.cells[it.IdxC] = nv
		}
	}
	if impure {
		st.kv = st.Fresh("kv_loop", SKV)
		for _, hn := range st.HeapNames() {
			st.heaps[hn] = st.Fresh(hn+"_loop", st.heaps[hn].Sort)
		}
		n := st.Fresh("traceN_loop", SInt)
		st.Assume(App(SBool, ">=", n, st.traceN))
		st.traceN = n
		st.trace = st.Fresh("trace_loop", "(Array Int Ev)")
	}
}

func libWrites(q string) bool { return false }

func (fr *frame) valOrNil(st *PState, v ssa.Value) (r Val) {
	defer func() {
		if e := recover(); e != nil {
			if _, ok := e.(unsupported); ok {
				r = nil
				return
			}
			panic(e)
		}
	}()
	return fr.val(st, v)
}

func (fr *frame) havocPtrRoot(st *PState, p *PtrVal) {
	switch p.Kind {
	case PLocal:
		if f, ok := st.cells[p.Cell].(*fwdCell); ok {
			name, h := st.Heap(p.Root)
			st.SetHeap(name, st.Name(name, Store(h, f.Ref, st.FreshOf("loopobj", p.Root))))
			return
		}
		if _, isT := st.cells[p.Cell].(T); isT || len(p.Path) > 0 {
			st.cells[p.Cell] = st.FreshOf("loopcell", p.Root)
		} else {
			// cell holding an executor-level value (pointer, closure): keep only if never reassigned to something else
			bail("loop assigns a non-term local")
		}
	case PHeap:
		name, h := st.Heap(p.Root)
		st.SetHeap(name, st.Fresh(name+"_loop", h.Sort))
	case PSliceElem:
		name, h, _ := st.sliceHeap(p.Root)
		st.heaps[name] = st.Fresh(name+"_loop", h.Sort)
	default:
		bail("loop stores through global pointer")
	}
}

func (fr *frame) havocByAddrExpr(st *PState, addr ssa.Value, et types.Type) {
	switch a := addr.(type) {
	case *ssa.FieldAddr:
		if p, ok := fr.valOrNil(st, a.X).(*PtrVal); ok {
			fr.havocPtrRoot(st, p)
			return
		}
		rt := a.X.Type().Underlying().(*types.Pointer).Elem()
		name, h := st.Heap(rt)
		st.SetHeap(name, st.Fresh(name+"_loop", h.Sort))
	case *ssa.IndexAddr:
		switch xt := a.X.Type().Underlying().(type) {
		case *types.Slice:
			name, h, _ := st.sliceHeap(xt.Elem())
			st.heaps[name] = st.Fresh(name+"_loop", h.Sort)
		case *types.Pointer:
			if p, ok := fr.valOrNil(st, a.X).(*PtrVal); ok {
				fr.havocPtrRoot(st, p)
				return
			}
			name, h := st.Heap(xt.Elem())
			st.SetHeap(name, st.Fresh(name+"_loop", h.Sort))
		}
	default:
		name, h := st.Heap(et)
		st.SetHeap(name, st.Fresh(name+"_loop", h.Sort))
	}
}

type callEff struct {
	views     []*ViewVal // stores written through views known before the loop
	unknown   bool       // may write anything
	state     bool       // may write the chain state (not the heaps, not the trace)
	trace     bool
	heapTypes []types.Type // may write objects of these pointee types
	ghosts    []string     // ghost counters that may change
}

var pureInvokes = map[string]bool{"Valid": true, "Key": true, "Value": true, "Close": true, "Error": true, "String": true, "Get": true, "Has": true,
	"Next": true, "With": true, "Warn": true, "MustMarshal": true, "MustUnmarshal": true, "Marshal": true, "Unmarshal": true, "Logger": true, "Debug": true, "Info": true, "Domain": true}

// callEffects over-approximates what a call inside a loop may modify.
func (fr *frame) callEffects(st *PState, c *ssa.CallCommon, depth int) callEff {
	ex := fr.ex
	var eff callEff
	if c.IsInvoke() {
		m := c.Method.Name()
		if pureInvokes[m] {
			return eff
		}
		if m == "Set" || m == "Delete" {
			if v, ok := fr.valOrNil(st, c.Value).(*ViewVal); ok {
				eff.views = append(eff.views, v)
				return eff
			}
		}
		eff.unknown = true
		return eff
	}
	f := c.StaticCallee()
	if f == nil {
		// closure / func value call
		if cv, ok := fr.valOrNil(st, c.Value).(*ClosureVal); ok && depth < 3 {
			return fr.bodyEffects(st, cv.Fn, depth+1)
		}
		if p, isParam := c.Value.(*ssa.Parameter); isParam && depth == 0 {
			if ct, ok := ex.CS.ByFunc[fr.fn.String()+"#"+p.Name()]; ok {
				return fr.contractEffects(ct, c.Signature(), nil)
			}
		}
		eff.unknown = true
		return eff
	}
	q := f.String()
	if pv := fr.top.contract.Flags["pure"]; pv != "" {
		for _, sub := range strings.Split(pv, ",") {
			if sub = strings.TrimSpace(sub); sub != "" && strings.Contains(q, sub) {
				return eff
			}
		}
	}
	if strings.HasPrefix(q, "(github.com/cosmos/cosmos-sdk/store/prefix.Store).") {
		if strings.HasSuffix(q, ".Set") || strings.HasSuffix(q, ".Delete") {
			if v, ok := fr.valOrNil(st, c.Args[0]).(*ViewVal); ok {
				eff.views = append(eff.views, v)
				return eff
			}
			eff.unknown = true
		}
		return eff
	}
	if _, ok := libModels[q]; ok {
		return eff
	}
	if isEffectFree(q) {
		return eff
	}
	if ct, ok := ex.CS.ByFunc[q]; ok && ct.Flags["inline"] == "" {
		return fr.contractEffects(ct, c.Signature(), f)
	}
	if mc, ok := c.Value.(*ssa.MakeClosure); ok {
		f = mc.Fn.(*ssa.Function)
	}
	if f.Blocks != nil && depth < 3 {
		return fr.bodyEffects(st, f, depth+1)
	}
	eff.unknown = true
	return eff
}

// contractEffects reads the effects of a call off the callee's modifies clause.
func (fr *frame) contractEffects(ct *Contract, sig *types.Signature, f *ssa.Function) callEff {
	var eff callEff
	pn, _ := paramNames(sig, f)
	var ptypes []types.Type
	if f == nil && sig.Recv() != nil {
		ptypes = append(ptypes, sig.Recv().Type())
	}
	if f != nil {
		for _, p := range f.Params {
			ptypes = append(ptypes, p.Type())
		}
	} else {
		for i := 0; i < sig.Params().Len(); i++ {
			ptypes = append(ptypes, sig.Params().At(i).Type())
		}
	}
	for _, m := range ct.Modifies {
		m = strings.TrimSpace(m)
		switch {
		case m == "":
		case m == "trace":
			eff.trace = true
		case strings.HasPrefix(m, "ghost(") && strings.HasSuffix(m, ")"):
			eff.ghosts = append(eff.ghosts, strings.TrimSpace(m[6:len(m)-1]))
		case strings.HasPrefix(m, "*"):
			name := strings.TrimSpace(m[1:])
			found := false
			for i, n := range pn {
				if n == name && i < len(ptypes) {
					if pt, ok := ptypes[i].Underlying().(*types.Pointer); ok {
						eff.heapTypes = append(eff.heapTypes, pt.Elem())
						found = true
					}
				}
			}
			if !found {
				eff.unknown = true
			}
		case strings.HasPrefix(m, "heap["):
			tn := strings.Trim(m[5:len(m)-1], "\"")
			if gt := fr.ex.LookupType(tn); gt != nil {
				eff.heapTypes = append(eff.heapTypes, gt)
			} else {
				eff.unknown = true
			}
		default:
			eff.state = true
		}
	}
	if len(ct.Emits) > 0 {
		eff.trace = true
	}
	for _, b := range ct.Bumps {
		eff.ghosts = append(eff.ghosts, b.Name)
	}
	return eff
}

// bodyEffects scans a callee body: pure unless it stores through non-local pointers or calls something effectful.
func (fr *frame) bodyEffects(st *PState, f *ssa.Function, depth int) callEff {
	var eff callEff
	for _, b := range f.Blocks {
		for _, ins := range b.Instrs {
			switch ins := ins.(type) {
			case *ssa.Store:
				if _, isAlloc := rootAlloc(ins.Addr); !isAlloc {
					eff.unknown = true
				}
			case *ssa.MapUpdate, *ssa.Send, *ssa.Go:
				eff.unknown = true
			case ssa.CallInstruction:
				c := ins.Common()
				if _, isB := c.Value.(*ssa.Builtin); isB {
					continue
				}
				e := fr.callEffects(st, c, depth)
				if len(e.views) > 0 {
					// views created inside the callee are not resolvable here
					eff.unknown = true
				}
				eff.unknown = eff.unknown || e.unknown
				eff.state = eff.state || e.state
				eff.trace = eff.trace || e.trace
				eff.heapTypes = append(eff.heapTypes, e.heapTypes...)
				eff.ghosts = append(eff.ghosts, e.ghosts...)
			}
		}
	}
	return eff
}

func rootAlloc(v ssa.Value) (*ssa.Alloc, bool) {
	for {
		switch x := v.(type) {
		case *ssa.Alloc:
			return x, true
		case *ssa.FieldAddr:
			v = x.X
		case *ssa.IndexAddr:
			v = x.X
		default:
			return nil, false
		}
	}
}

// assertSteps checks the per-iteration clauses of a loop at the back edge: old() refers to the state at the
// start of this iteration (after the invariants were assumed).
func (fr *frame) assertSteps(st *PState, b *ssa.BasicBlock, ord int, latch *ssa.BasicBlock) {
	tc := fr.top
	steps := fr.contract.Steps[ord]
	if len(steps) == 0 {
		return
	}
	snap := st.loopSnap[ord]
	if snap == nil {
		bail("loop %d: no iteration snapshot", ord)
	}
	env := fr.loopEnv(st, b).Goal()
	env.old = snap
	// plain locals of the body as they stand at the end of the iteration (range variables, temporaries)
	if latch != nil {
		for name, v := range fr.namedLocals(st, latch, len(latch.Instrs)) {
			if _, taken := env.vars[name]; !taken {
				env.vars[name] = v
			}
		}
	}
	// prev_<name>: the loop-carried variable <name> at the start of this iteration
	for _, ins := range b.Instrs {
		phi, ok := ins.(*ssa.Phi)
		if !ok {
			break
		}
		if v, ok := snap.env[phi]; ok && phi.Comment != "" {
			env.vars["prev_"+phi.Comment] = v
		}
	}
	// ... and of address-taken named locals (e.g. a slice captured by a closure later in the function)
	for _, blk := range fr.fn.Blocks {
		for _, ins := range blk.Instrs {
			if a, ok := ins.(*ssa.Alloc); ok && a.Comment != "" {
				if pv, ok := snap.env[a].(*PtrVal); ok {
					func() {
						defer func() { recover() }()
						env.vars["prev_"+a.Comment] = snap.LoadPtr(pv)
					}()
				}
			}
		}
	}
	for i, c := range steps {
		t, err := env.TrBool(c.Expr)
		if err != nil {
			tc.clauseErr(c.Label, fmt.Sprintf("loop %d step %q: %v", ord, c.Src, err))
			continue
		}
		tc.addObl(&Obligation{Name: fmt.Sprintf("%s/%s/step:loop%d.%d", ShortName(tc.fn.String()), c.Label, ord, i+1), Func: tc.fn.String(), Label: c.Label,
			Kind: "step", Decls: append([]string(nil), st.decls...), PC: append([]T(nil), st.pc...), Goal: t, Src: "step " + c.Src})
	}
}

// namedLocals gives the plain locals (SSA registers) by source name as they stand just before instruction idx of block
// at: for each name the definition that reaches that point - the one in a block dominating `at` (or earlier in `at`)
// that is dominated by every other such definition of the name (debug references of go/ssa). A name whose definitions
// merge reaches the point as a phi and is not reported here.
func (fr *frame) namedLocals(st *PState, at *ssa.BasicBlock, idx int) map[string]Val {
	type cand struct {
		v   ssa.Value
		blk *ssa.BasicBlock
		idx int
	}
	best := map[string]cand{}
	for _, blk := range fr.fn.Blocks {
		if !blk.Dominates(at) {
			continue
		}
		for i, ins := range blk.Instrs {
			if blk == at && i >= idx {
				break
			}
			d, ok := ins.(*ssa.DebugRef)
			if !ok || d.IsAddr {
				continue
			}
			id, ok := d.Expr.(*ast.Ident)
			if !ok || id.Name == "_" {
				continue
			}
			if _, have := st.env[d.X]; !have {
				if _, isConst := d.X.(*ssa.Const); !isConst {
					continue
				}
			}
			c, seen := best[id.Name]
			if !seen || (c.blk != blk && c.blk.Dominates(blk)) || (c.blk == blk && i > c.idx) {
				best[id.Name] = cand{d.X, blk, i}
			}
		}
	}
	out := map[string]Val{}
	for name, c := range best {
		func() {
			defer func() { recover() }()
			out[name] = fr.val(st, c.v)
		}()
	}
	return out
}
