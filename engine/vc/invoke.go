package vc

import (
	"fmt"
	"go/types"
	"strings"

	"golang.org/x/tools/go/ssa"
)

func namedOf(t types.Type) (pkg, name string) {
	if p, ok := t.(*types.Pointer); ok {
		t = p.Elem()
	}
	if n, ok := t.(*types.Named); ok {
		if n.Obj().Pkg() != nil {
			return n.Obj().Pkg().Path(), n.Obj().Name()
		}
		return "", n.Obj().Name()
	}
	return "", ""
}

// invoke handles interface method calls.
func (fr *frame) invoke(st *PState, c *ssa.CallCommon, recv Val, args []Val, k func(*PState, Val)) {
	ex := fr.ex
	m := c.Method.Name()
	ipkg, iname := namedOf(c.Value.Type())
	sig := c.Signature()
	// KV store views and iterators
	switch r := recv.(type) {
	case *ViewVal:
		if fr.depth == 0 && len(fr.top.guardCalls) > 0 {
			// guards `before[..] KVStore.<Method> requires ...` on direct store accesses (arg_key, arg_value)
			fr.checkGuards(st, "KVStore."+m, sig, args)
		}
		k(st, fr.viewMethod(st, r, m, args, sig))
		return
	case *IterVal:
		k(st, fr.iterMethod(st, r, m, args, sig))
		return
	}
	// codec
	if strings.HasSuffix(ipkg, "cosmos-sdk/codec") && (iname == "BinaryCodec" || iname == "Codec") {
		if res, ok := fr.codecMethod(st, m, args, sig); ok {
			k(st, res)
			return
		}
	}
	// sdk.Address: String / Bytes of an address whose dynamic type is not statically known
	if iname == "Address" && strings.HasSuffix(ipkg, "cosmos-sdk/types") {
		if _, known := recv.(*IfaceVal); !known {
			r := ex.reify(st, recv, c.Value.Type())
			switch m {
			case "String":
				res := WithGo(st.Name("addrstr", App(SBytes, "addr_string", App(SInt, "ityp", r), App(SBytes, "unbox_bytes", App(SInt, "ipay", r)))), types.Typ[types.String])
				st.Assume(Not(Eq(res, bnilT)))
				k(st, res)
				return
			case "Bytes":
				k(st, WithGo(App(SBytes, "unbox_bytes", App(SInt, "ipay", r)), sig.Results().At(0).Type()))
				return
			}
		}
	}
	// known dynamic type
	if iv, ok := recv.(*IfaceVal); ok {
		ms := ex.W.Prog.MethodSets.MethodSet(iv.Dyn)
		if sel := ms.Lookup(c.Method.Pkg(), m); sel != nil {
			if f := ex.W.Prog.MethodValue(sel); f != nil {
				fr.callFunction(st, f.String(), f, f.Signature, append([]Val{iv.Payload}, args...), k)
				return
			}
		}
	}
	// error.Error(), fmt.Stringer etc.
	if m == "Error" || m == "String" {
		k(st, fr.freshResults(st, sig, m))
		return
	}
	// logger
	if iname == "Logger" && strings.Contains(ipkg, "log") {
		k(st, fr.freshResults(st, sig, m))
		return
	}
	// known dynamic type
	if iv, ok := recv.(*IfaceVal); ok {
		ms := ex.W.Prog.MethodSets.MethodSet(iv.Dyn)
		if sel := ms.Lookup(c.Method.Pkg(), m); sel != nil {
			if f := ex.W.Prog.MethodValue(sel); f != nil {
				fr.callFunction(st, f.String(), f, f.Signature, append([]Val{iv.Payload}, args...), k)
				return
			}
		}
	}
	// binding table: interface type -> concrete keeper type
	key := ipkg + "." + iname
	if conc, ok := ex.Bindings[key]; ok {
		qname := "(" + conc + ")." + m
		f := ex.W.Funcs[qname]
		if f == nil {
			// pointer receiver?
			if f2 := ex.W.Funcs["(*"+conc+")."+m]; f2 != nil {
				f, qname = f2, "(*"+conc+")."+m
			}
		}
		ex.Assumed["binding:"+ShortName(key)+"=>"+ShortName(conc)] = true
		recvI := ex.reify(st, recv, c.Value.Type())
		var fsig *types.Signature
		if f != nil {
			fsig = f.Signature
		} else {
			fsig = withRecv(sig, c.Value.Type())
		}
		// the concrete receiver behind the interface value: a reference for pointer receivers, an opaque
		// keeper value otherwise (keepers are only used through their store wiring)
		var recvV Val = recvI
		if fsig.Recv() != nil {
			rt := fsig.Recv().Type()
			if _, isPtr := rt.Underlying().(*types.Pointer); isPtr {
				ref := WithGo(App(SInt, "ipay", recvI), rt)
				st.Assume(And(App(SBool, ">", ref, IntLit(0)), App(SBool, "<", ref, T{S: "REF0", Sort: SInt})))
				recvV = ref
			} else if _, isIface := rt.Underlying().(*types.Interface); !isIface {
				recvV = st.FreshOf("bound_recv", rt)
			}
		}
		fr.callFunction(st, qname, f, fsig, append([]Val{recvV}, args...), k)
		return
	}
	// guard clauses on interface methods that are not bound to a keeper of the repository (bound ones are checked at the
	// concrete callee, with its parameter names): `before[..] <Iface>).<Method> requires ...` (arg0 = first argument)
	if fr.depth == 0 && len(fr.top.guardCalls) > 0 {
		gargs := args
		if sig.Recv() != nil {
			gargs = append([]Val{recv}, args...) // go/types gives interface methods a receiver: keep names and values aligned
		}
		fr.checkGuards(st, "("+key+")."+m, sig, gargs)
	}
	if pv := fr.top.contract.Flags["pure"]; pv != "" {
		for _, sub := range strings.Split(pv, ",") {
			if sub = strings.TrimSpace(sub); sub != "" && strings.Contains(m, sub) {
				ex.Assumed["assumed pure (no effect on chain state or heap): interface method "+ShortName(key)+"."+m] = true
				k(st, fr.freshResults(st, sig, m))
				return
			}
		}
	}
	// a contract stated on the interface method itself (external keepers: bank, account, ...)
	if ct, ok := ex.CS.ByFunc["("+key+")."+m]; ok {
		recvT := ex.reify(st, recv, c.Value.Type())
		// the signature of an interface method has no receiver: name the arguments by position
		fr.applyContract(st, ct, withRecv(sig, c.Value.Type()), nil, append([]Val{recvT}, args...), k)
		return
	}
	fr.havocCall(st, fmt.Sprintf("invoke %s.%s", ShortName(key), m), sig, append([]Val{recv}, args...), k)
}

// ---------------------------------------------------------------------------------------------
// KV store model

func (ex *Exec) fullKey(v *ViewVal, key T) T {
	if v.Prefix.IsZero() {
		return key
	}
	return Cat(v.Prefix, key)
}

func (st *PState) kvGet(v *ViewVal, key T) T {
	state := Select(st.kv, v.Cell, SState)
	return stGet(state, v.Store, st.ex.fullKey(v, key))
}

func (st *PState) kvSet(v *ViewVal, key T, val T) {
	state := Select(st.kv, v.Cell, SState)
	st.kv = st.Name("kv", Store(st.kv, v.Cell, stSet(state, v.Store, st.ex.fullKey(v, key), val)))
}

var bnilT = T{S: "bnil", Sort: SBytes}

func (fr *frame) viewMethod(st *PState, v *ViewVal, m string, args []Val, sig *types.Signature) Val {
	ex := fr.ex
	argT := func(i int) T { return ex.reify(st, args[i], sig.Params().At(i).Type()) }
	switch m {
	case "Get":
		key := argT(0)
		fr.panicUnless(st, Not(Eq(key, bnilT)), "store Get with nil key")
		r := st.Name("got", st.kvGet(v, key))
		r.Go = sig.Results().At(0).Type()
		return r
	case "Has":
		key := argT(0)
		fr.panicUnless(st, Not(Eq(key, bnilT)), "store Has with nil key")
		return Not(Eq(st.kvGet(v, key), bnilT))
	case "Set":
		key, val := argT(0), argT(1)
		fr.panicUnless(st, And(Not(Eq(key, bnilT)), App(SBool, ">", App(SInt, "blen", key), IntLit(0))), "store Set with nil or empty key")
		fr.panicUnless(st, Not(Eq(val, bnilT)), "store Set with nil value")
		st.kvSet(v, key, val)
		return T{S: "unit", Sort: SUnit}
	case "Delete":
		key := argT(0)
		fr.panicUnless(st, Not(Eq(key, bnilT)), "store Delete with nil key")
		st.kvSet(v, key, bnilT)
		return T{S: "unit", Sort: SUnit}
	case "Iterator", "ReverseIterator":
		bail("store.%s (range iterators not modelled)", m)
	}
	bail("KVStore method %s", m)
	return nil
}

// newIterator models sdk.KVStorePrefixIterator(view, prefix): a ghost sequence of all keys (relative to
// the view) that start with pfx and are present in the store at creation time, strictly ascending.
func (fr *frame) newIterator(st *PState, v *ViewVal, pfx T) *IterVal {
	seq := st.Fresh("itseq", "(Array Int Bytes)")
	n := st.Fresh("itn", SInt)
	st.Assume(App(SBool, ">=", n, IntLit(0)))
	it := &IterVal{View: v, Pfx: pfx, Seq: seq, N: n}
	it.IdxID = st.NewCell(IntLit(0))
	// ghost sequence: exactly the keys of the view that start with pfx and are present now, each once
	ex := fr.ex
	ex.fresh++
	q := fmt.Sprintf("qi_%d", ex.fresh)
	q2 := fmt.Sprintf("qj_%d", ex.fresh)
	state := Select(st.kv, v.Cell, SState)
	kq := Select(seq, T{S: q, Sort: SInt}, SBytes)
	present := Not(Eq(stGet(state, v.Store, ex.fullKey(v, kq)), bnilT))
	st.Assume(mk(SBool, "(forall ((%s Int)) (! (=> (and (<= 0 %s) (< %s %s)) (and %s (bprefix %s %s) (not (= %s bnil)))) :pattern ((select %s %s))))",
		q, q, q, n.S, present.S, pfx.S, kq.S, kq.S, seq.S, q))
	st.Assume(mk(SBool, "(forall ((%s Int) (%s Int)) (! (=> (and (<= 0 %s) (< %s %s) (< %s %s)) (not (= (select %s %s) (select %s %s)))) :pattern ((select %s %s) (select %s %s))))",
		q, q2, q, q, q2, q2, n.S, seq.S, q, seq.S, q2, seq.S, q, seq.S, q2))
	// completeness: every present key with the prefix occurs in the sequence (Skolem position function)
	pos := fmt.Sprintf("itpos_%d", ex.fresh)
	ex.declFun(pos, []string{SBytes}, SInt)
	kb := T{S: "qk_" + fmt.Sprint(ex.fresh), Sort: SBytes}
	presentK := Not(Eq(stGet(state, v.Store, ex.fullKey(v, kb)), bnilT))
	st.Assume(mk(SBool, "(forall ((%s Bytes)) (! (=> (and %s (bprefix %s %s)) (and (<= 0 (%s %s)) (< (%s %s) %s) (= (select %s (%s %s)) %s))) :pattern ((%s %s))))",
		kb.S, presentK.S, pfx.S, kb.S, pos, kb.S, pos, kb.S, n.S, seq.S, pos, kb.S, kb.S, pos, kb.S))
	it.Pos = pos
	ex.Assumed["iterator model: KVStorePrefixIterator enumerates exactly the present keys with the byte prefix, each once (snapshot at creation)"] = true
	return it
}

func (fr *frame) iterMethod(st *PState, it *IterVal, m string, args []Val, sig *types.Signature) Val {
	idx := st.cells[it.IdxID].(T)
	switch m {
	case "Valid":
		return App(SBool, "<", idx, it.N)
	case "Next":
		fr.panicUnless(st, App(SBool, "<", idx, it.N), "iterator Next when invalid")
		st.cells[it.IdxID] = st.Name("itidx", App(SInt, "+", idx, IntLit(1)))
		return T{S: "unit", Sort: SUnit}
	case "Key":
		fr.panicUnless(st, App(SBool, "<", idx, it.N), "iterator Key when invalid")
		// key as seen through the view: for prefix stores the prefix is stripped
		k := Select(it.Seq, idx, SBytes)
		st.Assume(Not(Eq(k, bnilT)))
		return WithGo(k, sig.Results().At(0).Type())
	case "Value":
		fr.panicUnless(st, App(SBool, "<", idx, it.N), "iterator Value when invalid")
		k := Select(it.Seq, idx, SBytes)
		v := st.Name("itval", st.kvGet(it.View, k))
		// snapshot assumption: the entry is still present
		st.Assume(Not(Eq(v, bnilT)))
		return WithGo(v, sig.Results().At(0).Type())
	case "Close":
		return st.ex.ZeroOf(sig.Results().At(0).Type())
	case "Error":
		return T{S: "inil", Sort: SIface}
	case "Domain":
		return fr.freshResults(st, sig, m)
	}
	bail("iterator method %s", m)
	return nil
}

// ---------------------------------------------------------------------------------------------
// codec model: per Go type T, unm_T : Bytes -> T with unm_T(marshal(x)) = x (assumed round trip).

func (ex *Exec) Unm(gt types.Type, b T) T {
	es := ex.Sorts.SortOf(gt)
	name := "unm_" + sanitize(shortTypeName(gt))
	ex.declFun(name, []string{SBytes}, es)
	// decoded values have non-nil math.Int / LegacyDec fields (gogoproto customtype Unmarshal allocates; the
	// encoder always writes these fields): instantiated per use, no quantifier
	x := WithGo(App(es, name, b), gt)
	var facts []T
	ex.nonNilFacts(x, gt, 0, &facts)
	if len(facts) > 0 {
		ex.side = append(ex.side, And(facts...))
		ex.Assumed["codec: decoded "+shortTypeName(gt)+" has non-nil Int/Dec fields"] = true
	}
	return x
}

func (ex *Exec) nonNilFacts(x T, t types.Type, depth int, out *[]T) {
	switch x.Sort {
	case SIntV:
		*out = append(*out, Not(App(SBool, "isnil", x)))
		return
	case SDecV:
		*out = append(*out, Not(App(SBool, "disnil", x)))
		return
	case SSlice:
		*out = append(*out, And(App(SBool, ">=", App(SInt, "slen", x), IntLit(0)), App(SBool, ">=", App(SInt, "soff", x), IntLit(0)),
			App(SBool, ">=", App(SInt, "scap", x), App(SInt, "slen", x)), App(SBool, ">=", App(SInt, "sbase", x), IntLit(0)),
			Implies(Eq(App(SInt, "sbase", x), IntLit(0)), Eq(App(SInt, "slen", x), IntLit(0)))))
		return
	}
	if depth > 2 {
		return
	}
	if si := ex.Sorts.StructInfoOf(t); si != nil {
		for i, f := range si.Fields {
			ex.nonNilFacts(ex.Sorts.Field(x, si, i), f.Go, depth+1, out)
		}
	}
}

// normForCodec is what decoding the encoding of x yields: nil Int/Dec fields come back as zero.
func (ex *Exec) normForCodec(x T, t types.Type, depth int) T {
	switch x.Sort {
	case SIntV:
		return App(SIntV, "mkIntV", Bool(false), Ite(App(SBool, "isnil", x), IntLit(0), App(SInt, "val", x)))
	case SDecV:
		return App(SDecV, "mkDecV", Bool(false), Ite(App(SBool, "disnil", x), IntLit(0), App(SInt, "dval", x)))
	}
	if depth > 2 {
		return x
	}
	si := ex.Sorts.StructInfoOf(t)
	if si == nil {
		return x
	}
	args := make([]T, len(si.Fields))
	changed := false
	for i, f := range si.Fields {
		fx := ex.Sorts.Field(x, si, i)
		args[i] = ex.normForCodec(fx, f.Go, depth+1)
		if args[i].S != fx.S {
			changed = true
		}
	}
	if !changed {
		return x
	}
	return WithGo(App(si.Sort, si.Ctor, args...), t)
}

func (ex *Exec) declFun(name string, args []string, ret string) {
	if ex.funDecls == nil {
		ex.funDecls = map[string]string{}
	}
	if _, inPrelude := ex.Prelude.Sigs[name]; inPrelude {
		return
	}
	if _, ok := ex.funDecls[name]; !ok {
		ex.funDecls[name] = fmt.Sprintf("(declare-fun %s (%s) %s)", name, strings.Join(args, " "), ret)
		ex.funOrder = append(ex.funOrder, name)
	}
}

func (fr *frame) codecMethod(st *PState, m string, args []Val, sig *types.Signature) (Val, bool) {
	ex := fr.ex
	ptrOf := func(v Val) (*PtrVal, types.Type, bool) {
		iv, ok := v.(*IfaceVal)
		if !ok {
			return nil, nil, false
		}
		pt, ok := iv.Dyn.Underlying().(*types.Pointer)
		if !ok {
			return nil, nil, false
		}
		switch p := iv.Payload.(type) {
		case *PtrVal:
			return p, pt.Elem(), true
		case T:
			return &PtrVal{Kind: PHeap, Ref: p, Root: pt.Elem()}, pt.Elem(), true
		}
		return nil, nil, false
	}
	switch m {
	case "MustMarshal", "Marshal", "MustMarshalLengthPrefixed", "MarshalLengthPrefixed":
		p, et, ok := ptrOf(args[0])
		if !ok {
			return nil, false
		}
		x := ex.reify(st, st.LoadPtr(p), et)
		bz := st.Fresh("bz", SBytes)
		st.Assume(Not(Eq(bz, bnilT)))
		st.Assume(Eq(ex.Unm(et, bz), ex.normForCodec(st.Name("marshaled", x), et, 0)))
		ex.side = nil // the non-nil facts follow from the normalisation
		ex.Assumed["codec round trip unm(mar(x)) = x for "+shortTypeName(et)] = true
		if strings.HasPrefix(m, "Must") {
			return WithGo(bz, sig.Results().At(0).Type()), true
		}
		return &TupleVal{Elems: []Val{WithGo(bz, sig.Results().At(0).Type()), T{S: "inil", Sort: SIface}}}, true
	case "MustUnmarshal", "Unmarshal", "MustUnmarshalLengthPrefixed", "UnmarshalLengthPrefixed":
		bz := ex.reify(st, args[0], sig.Params().At(0).Type())
		p, et, ok := ptrOf(args[1])
		if !ok {
			return nil, false
		}
		val := ex.Unm(et, bz)
		st.FlushSide()
		// the decoded message obeys its Go type (integer ranges; its slices and pointers are its own memory, none of
		// the allocations this function makes)
		if vt, ok := Val(val).(T); ok {
			st.TypeFacts(vt, et, 0)
		}
		// The generated (gogoproto) Unmarshal does not reset its target: fields absent from the bytes (zero values are
		// not encoded) keep what the target held. Only a target that holds the zero value is known to end up as the
		// decoded message; any other target ends up as an unknown merge of the two.
		cur := ex.reify(st, st.LoadPtr(p), et)
		isZero := cur.S == ex.ZeroOf(et).S
		if !isZero {
			c := cur.S
			if strings.HasPrefix(c, "(select ") {
				// a heap object: look the stored value up through the chain of stores
				if sx, err := parseSexprs(c); err == nil && len(sx) == 1 && len(sx[0].list) == 3 {
					if v, ok := st.resolveSelect(sx[0].list[1].String(), sx[0].list[2].String()); ok {
						c = v
					}
				}
			}
			if !strings.HasPrefix(c, "(") {
				if body, ok := st.defOf(c); ok {
					c = body
				}
			}
			isZero = c == ex.ZeroOf(et).S
		}
		if !isZero {
			val = ex.mergeUnm(st, cur, val, et)
		}
		if strings.HasPrefix(m, "Must") {
			st.StorePtr(p, st.Name("unm", val))
			return T{S: "unit", Sort: SUnit}, true
		}
		// Unmarshal may fail on malformed bytes: error is unconstrained; on success the target is the decoded value
		errv := st.Fresh("unmerr", SIface)
		st2val := st.Name("unm", val)
		st.StorePtr(p, Ite(Eq(errv, T{S: "inil", Sort: SIface}), st2val, cur))
		return errv, true
	}
	return nil, false
}

// ---------------------------------------------------------------------------------------------
// builtins

func (fr *frame) builtin(st *PState, b *ssa.Builtin, c *ssa.CallCommon, site ssa.Instruction) Val {
	ex := fr.ex
	switch b.Name() {
	case "len":
		x := fr.term(st, c.Args[0])
		switch x.Sort {
		case SBytes:
			return App(SInt, "blen", x)
		case SSlice:
			return App(SInt, "slen", x)
		case SInt: // map
			if mt, ok := c.Args[0].Type().Underlying().(*types.Map); ok {
				return fr.mapLen(st, x, mt)
			}
		}
		if arr, ok := c.Args[0].Type().Underlying().(*types.Array); ok {
			return IntLit(arr.Len())
		}
		bail("len of sort %s", x.Sort)
	case "cap":
		x := fr.term(st, c.Args[0])
		if x.Sort == SSlice {
			return App(SInt, "scap", x)
		}
		r := st.Fresh("cap", SInt)
		st.Assume(App(SBool, ">=", r, App(SInt, "blen", x)))
		return r
	case "append":
		return fr.appendOp(st, c)
	case "copy":
		// copy(dst, src) into a slice with a backing array in the slice heap: the elements of that heap become unknown
		// (which elements are overwritten is not tracked); byte slices are values in this model and cannot be the target
		dst := fr.term(st, c.Args[0])
		sl, isSlice := c.Args[0].Type().Underlying().(*types.Slice)
		if !isSlice || dst.Sort != SSlice {
			bail("builtin copy into %s", dst.Sort)
		}
		name, h, _ := st.sliceHeap(sl.Elem())
		st.heaps[name] = st.Fresh(name+"_copy", h.Sort)
		n := st.Fresh("copied", SInt)
		st.Assume(And(App(SBool, "<=", IntLit(0), n), App(SBool, "<=", n, App(SInt, "slen", dst))))
		return n
	case "delete":
		fr.mapDelete(st, c)
		return T{S: "unit", Sort: SUnit}
	case "print", "println":
		return T{S: "unit", Sort: SUnit}
	case "min", "max":
		x, y := fr.term(st, c.Args[0]), fr.term(st, c.Args[1])
		if b.Name() == "min" {
			return App(SInt, "imin", x, y)
		}
		return App(SInt, "imax", x, y)
	case "ssa:wrapnilchk":
		return fr.val(st, c.Args[0])
	}
	_ = ex
	bail("builtin %s", b.Name())
	return nil
}

// withRecv adds a receiver to an interface method signature (so that parameter naming lines up).
func withRecv(sig *types.Signature, recvT types.Type) *types.Signature {
	recv := types.NewVar(0, nil, "recv", recvT)
	return types.NewSignatureType(recv, nil, nil, sig.Params(), sig.Results(), sig.Variadic())
}

// mergeUnm is what a generated (gogoproto) Unmarshal leaves in a target that held cur when the bytes decode to dec:
// a field of struct type (non-nullable message or custom type: math.Int, LegacyDec, time) is always present in the
// encoding and is overwritten; a scalar field (numbers, bool, string, bytes) is encoded only when it is not the zero
// value, so the target keeps its old content when the decoded field is zero; repeated, optional-message and map fields
// are appended to / merged into what the target held, which is modelled only for an empty target field (otherwise the
// field becomes an unconstrained value).
func (ex *Exec) mergeUnm(st *PState, cur, dec T, et types.Type) T {
	si := ex.Sorts.StructInfoOf(et)
	if si == nil {
		ex.Assumed["Unmarshal into a non-struct target that is not known to be zero yields an unconstrained value"] = true
		return st.FreshOf("unm_merged", et)
	}
	args := make([]T, len(si.Fields))
	for i, f := range si.Fields {
		cf, df := ex.Sorts.Field(cur, si, i), ex.Sorts.Field(dec, si, i)
		switch u := f.Go.Underlying().(type) {
		case *types.Struct:
			_ = u
			args[i] = df
		case *types.Basic:
			args[i] = Ite(Eq(df, ex.ZeroOf(f.Go)), cf, df)
		default:
			isBytes := f.Sort == SBytes
			if isBytes {
				args[i] = Ite(Or(Eq(df, bnilT), Eq(App(SInt, "blen", df), IntLit(0))), cf, df)
				break
			}
			if cf.S == ex.ZeroOf(f.Go).S {
				args[i] = df
				break
			}
			ex.Assumed["Unmarshal into a target whose repeated/optional field "+si.Sort+"."+f.Name+" is not known to be empty: field unconstrained (generated Unmarshal appends/merges)"] = true
			fr := st.FreshOf("unm_merged_"+sanitize(f.Name), f.Go)
			args[i] = fr
		}
	}
	r := App(si.Sort, si.Ctor, args...)
	r.Go = et
	return r
}
