package vc

import (
	"fmt"
	"go/constant"
	"go/token"
	"go/types"
	"math/big"
	"os"
	"path/filepath"
	"sort"
	"strconv"
	"strings"
	"time"

	"golang.org/x/tools/go/ssa"
)

// Obligation is one verification condition: decls + pc |- goal.
type Obligation struct {
	Name    string
	Func    string
	Label   string
	Kind    string // post | pre | nopanic | inv-entry | inv-preserve | frame | lemma | cover | guard
	Decls   []string
	PC      []T
	Goal    T
	Notes   []string
	Cover   bool // expected sat
	Src     string
	Bounded bool
}

type unsupported struct{ why string }

func (u unsupported) Error() string { return "outside subset: " + u.why }

func bail(format string, a ...interface{}) { panic(unsupported{fmt.Sprintf(format, a...)}) }

// frame is the activation of one function body being executed (top-level or inlined).
type frame struct {
	ex         *Exec
	fn         *ssa.Function
	depth      int
	top        *topCtx
	loops      map[*ssa.BasicBlock]int // loop header -> ordinal
	loopBody   map[*ssa.BasicBlock]map[*ssa.BasicBlock]bool
	ret        func(st *PState, results []Val, site int)
	pan        func(st *PState, why string)
	defers     map[*PState][]*ssa.Defer
	contract   *Contract // contract whose loop invariants apply (the function's own)
	params     map[string]Val
	stack      []string
	curSSAArgs []ssa.Value
	curSite    ssa.Instruction // the call instruction being dispatched (guards see the locals at this point)
}

// topCtx is shared by all frames of one top-level function verification.
type topCtx struct {
	fn         *ssa.Function
	contract   *Contract
	paths      int
	capHit     bool
	obls       []*Obligation
	nopanic    string // label for nopanic obligations ("" = off)
	oblCount   map[string]int
	entry      *PState
	entryVars  map[string]Val
	bounded    bool
	inlined    map[string]bool
	havocs     map[string]bool
	notes      map[string]bool
	guardCalls []guardSpec
	pruneN     int
	clauseErrs map[string]string
	started    time.Time // generation budget: a function whose exploration takes too long is cut off (capHit)
}

// clauseErr records that a labelled clause cannot be interpreted on this code; unlabelled clauses (plain invariants
// that other clauses rely on) still abort the function.
func (tc *topCtx) clauseErr(label, msg string) {
	if label == "" {
		bail("%s", msg)
	}
	if tc.clauseErrs == nil {
		tc.clauseErrs = map[string]string{}
	}
	if _, ok := tc.clauseErrs[label]; !ok {
		tc.clauseErrs[label] = msg
	}
	tc.notes["clause "+label+" not interpretable on this code: "+msg] = true
}

func (tc *topCtx) addObl(o *Obligation) {
	base := o.Name
	tc.oblCount[base]++
	o.Name = fmt.Sprintf("%s/%d", base, tc.oblCount[base])
	tc.obls = append(tc.obls, o)
}

// execBody runs fn's body from st with the given argument values.
func (fr *frame) execBody(st *PState, args []Val) {
	fn := fr.fn
	if fn.Blocks == nil {
		bail("no body for %s", fn)
	}
	for i, p := range fn.Params {
		st.env[p] = args[i]
	}
	fr.computeLoops()
	fr.runBlock(st, fn.Blocks[0], nil, map[*ssa.BasicBlock]int{})
}

func (fr *frame) computeLoops() {
	fn := fr.fn
	fr.loops = map[*ssa.BasicBlock]int{}
	fr.loopBody = map[*ssa.BasicBlock]map[*ssa.BasicBlock]bool{}
	var heads []*ssa.BasicBlock
	for _, b := range fn.Blocks {
		for _, s := range b.Succs {
			if s.Dominates(b) { // back edge b -> s
				if _, ok := fr.loopBody[s]; !ok {
					fr.loopBody[s] = map[*ssa.BasicBlock]bool{s: true}
					heads = append(heads, s)
				}
				// natural loop: nodes that reach b without passing s
				var stack []*ssa.BasicBlock
				if !fr.loopBody[s][b] {
					fr.loopBody[s][b] = true
					stack = append(stack, b)
				}
				for len(stack) > 0 {
					n := stack[len(stack)-1]
					stack = stack[:len(stack)-1]
					for _, p := range n.Preds {
						if !fr.loopBody[s][p] {
							fr.loopBody[s][p] = true
							stack = append(stack, p)
						}
					}
				}
			}
		}
	}
	sort.Slice(heads, func(i, j int) bool { return heads[i].Index < heads[j].Index })
	for i, h := range heads {
		fr.loops[h] = i + 1
	}
}

func (fr *frame) runBlock(st *PState, b *ssa.BasicBlock, pred *ssa.BasicBlock, visits map[*ssa.BasicBlock]int) {
	if st.dead {
		return
	}
	tc := fr.top
	// loop handling
	if ord, isHead := fr.loops[b]; isHead {
		backEdge := pred != nil && fr.loopBody[b][pred]
		var invs []Clause
		hasInv := false
		if fr.contract != nil && fr.depth == 0 {
			invs, hasInv = fr.contract.Loops[ord]
		}
		if hasInv {
			// evaluate phis from pred first
			fr.evalPhis(st, b, pred)
			if backEdge {
				fr.assertInvariants(st, b, ord, invs, "inv-preserve")
				fr.assertSteps(st, b, ord, pred)
				return
			}
			fr.assertInvariants(st, b, ord, invs, "inv-entry")
			fr.havocLoop(st, b, ord)
			for _, c := range invs {
				env := fr.loopEnv(st, b)
				t, err := env.TrBool(c.Expr)
				if err != nil {
					if strings.Contains(err.Error(), "unknown identifier res_") || strings.Contains(err.Error(), "unknown identifier it_") {
						// the invariant speaks about a call result that does not exist on this path: it is not assumed
						// (its entry obligation above has already failed: undefined ghosts make goals false)
						tc.notes[fmt.Sprintf("loop #%d invariant %q not assumed: %v", ord, c.Src, err)] = true
						continue
					}
					// not interpretable on this code: its obligation has been recorded as undecided (assertInvariants);
					// not assuming it is the weaker, sound choice
					tc.notes[fmt.Sprintf("loop #%d invariant %q not assumed: %v", ord, c.Src, err)] = true
					continue
				}
				st.Assume(t)
			}
			if st.loopSnap == nil {
				st.loopSnap = map[int]*PState{}
			} else {
				ns := make(map[int]*PState, len(st.loopSnap)+1)
				for k, v := range st.loopSnap {
					ns[k] = v
				}
				st.loopSnap = ns
			}
			st.loopSnap[ord] = st.Snapshot()
			fr.runInstrs(st, b, pred, visits, true)
			return
		}
		if visits[b] > fr.ex.Opts.Unroll {
			tc.bounded = true
			tc.notes[fmt.Sprintf("loop #%d of %s unrolled %d times (no invariant): bounded", ord, ShortName(fr.fn.String()), fr.ex.Opts.Unroll)] = true
			return
		}
	} else if visits[b] > 64 {
		bail("block revisited too often (irreducible control flow?)")
	}
	nv := make(map[*ssa.BasicBlock]int, len(visits)+1)
	for k, v := range visits {
		nv[k] = v
	}
	nv[b]++
	fr.runInstrs(st, b, pred, nv, false)
}

func (fr *frame) evalPhis(st *PState, b, pred *ssa.BasicBlock) {
	if pred == nil {
		return
	}
	idx := -1
	for i, p := range b.Preds {
		if p == pred {
			idx = i
		}
	}
	vals := map[*ssa.Phi]Val{}
	for _, ins := range b.Instrs {
		phi, ok := ins.(*ssa.Phi)
		if !ok {
			break
		}
		vals[phi] = fr.val(st, phi.Edges[idx])
	}
	for p, v := range vals {
		st.env[p] = v
	}
}

func (fr *frame) runInstrs(st *PState, b, pred *ssa.BasicBlock, visits map[*ssa.BasicBlock]int, phisDone bool) {
	if !phisDone {
		fr.evalPhis(st, b, pred)
	}
	for i, ins := range b.Instrs {
		if _, ok := ins.(*ssa.Phi); ok {
			continue
		}
		if st.dead {
			return
		}
		switch ins := ins.(type) {
		case *ssa.If:
			c := fr.term(st, ins.Cond)
			tb, fb := b.Succs[0], b.Succs[1]
			if c.S == "true" {
				fr.runBlock(st, tb, b, visits)
				return
			}
			if c.S == "false" {
				fr.runBlock(st, fb, b, visits)
				return
			}
			if !fr.ex.Opts.NoMerge && fr.tryMerge(st, b, c, visits) {
				return
			}
			fr.top.paths++
			if fr.top.paths > fr.ex.Opts.MaxPaths || fr.top.overBudget() {
				fr.top.capHit = true
				return
			}
			st2 := st.Clone()
			st.Assume(c)
			if !fr.infeasible(st) {
				fr.runBlock(st, tb, b, visits)
			}
			st2.Assume(Not(c))
			if !fr.infeasible(st2) {
				fr.runBlock(st2, fb, b, visits)
			}
			return
		case *ssa.Jump:
			fr.runBlock(st, b.Succs[0], b, visits)
			return
		case *ssa.Return:
			var rs []Val
			for _, r := range ins.Results {
				v := fr.val(st, r)
				if p, ok := v.(*PtrVal); ok && p.Kind == PLocal && len(p.Path) == 0 {
					v = fr.ex.ptrTerm(st, p) // a returned local escapes to the heap
				}
				rs = append(rs, v)
			}
			fr.ret(st, rs, fr.returnOrdinal(ins))
			return
		case *ssa.Panic:
			fr.pan(st, "explicit panic")
			return
		case *ssa.RunDefers:
			if ds := st.takeDefers(fr); len(ds) > 0 {
				rest := i + 1
				fr.runDefers(st, ds, func(st2 *PState) { fr.resume(st2, b, rest, visits) })
				return
			}
			continue
		case *ssa.Defer:
			// effect-free deferred calls (iterator Close, telemetry) are dropped; the others run at RunDefers
			if !fr.deferIsBenign(st, ins) {
				st.deferred = append(st.deferred, deferRec{fr, ins})
			}
			continue
		case *ssa.Go, *ssa.Select, *ssa.Send:
			bail("%T in %s", ins, fr.fn)
		case *ssa.Call:
			// calls may fork the path: continue the rest of the block in a continuation
			rest := i + 1
			fr.call(st, ins, &ins.Call, func(st2 *PState, res Val) {
				if ins.Type() != nil {
					st2.env[ins] = res
				}
				fr.resume(st2, b, rest, visits)
			})
			return
		default:
			fr.step(st, ins)
		}
	}
}

// resume continues block b at instruction index from.
func (fr *frame) resume(st *PState, b *ssa.BasicBlock, from int, visits map[*ssa.BasicBlock]int) {
	for i := from; i < len(b.Instrs); i++ {
		if st.dead {
			return
		}
		ins := b.Instrs[i]
		switch ins := ins.(type) {
		case *ssa.If:
			c := fr.term(st, ins.Cond)
			tb, fb := b.Succs[0], b.Succs[1]
			if c.S == "true" {
				fr.runBlock(st, tb, b, visits)
				return
			}
			if c.S == "false" {
				fr.runBlock(st, fb, b, visits)
				return
			}
			if !fr.ex.Opts.NoMerge && fr.tryMerge(st, b, c, visits) {
				return
			}
			fr.top.paths++
			if fr.top.paths > fr.ex.Opts.MaxPaths || fr.top.overBudget() {
				fr.top.capHit = true
				return
			}
			st2 := st.Clone()
			st.Assume(c)
			if !fr.infeasible(st) {
				fr.runBlock(st, tb, b, visits)
			}
			st2.Assume(Not(c))
			if !fr.infeasible(st2) {
				fr.runBlock(st2, fb, b, visits)
			}
			return
		case *ssa.Jump:
			fr.runBlock(st, b.Succs[0], b, visits)
			return
		case *ssa.Return:
			var rs []Val
			for _, r := range ins.Results {
				v := fr.val(st, r)
				if p, ok := v.(*PtrVal); ok && p.Kind == PLocal && len(p.Path) == 0 {
					v = fr.ex.ptrTerm(st, p) // a returned local escapes to the heap
				}
				rs = append(rs, v)
			}
			fr.ret(st, rs, fr.returnOrdinal(ins))
			return
		case *ssa.Panic:
			fr.pan(st, "explicit panic")
			return
		case *ssa.RunDefers:
			if ds := st.takeDefers(fr); len(ds) > 0 {
				rest := i + 1
				fr.runDefers(st, ds, func(st2 *PState) { fr.resume(st2, b, rest, visits) })
				return
			}
			continue
		case *ssa.Defer:
			if !fr.deferIsBenign(st, ins) {
				st.deferred = append(st.deferred, deferRec{fr, ins})
			}
			continue
		case *ssa.Go, *ssa.Select, *ssa.Send:
			bail("%T in %s", ins, fr.fn)
		case *ssa.Call:
			rest := i + 1
			fr.call(st, ins, &ins.Call, func(st2 *PState, res Val) {
				if ins.Type() != nil {
					st2.env[ins] = res
				}
				fr.resume(st2, b, rest, visits)
			})
			return
		default:
			fr.step(st, ins)
		}
	}
}

func (fr *frame) returnOrdinal(r *ssa.Return) int {
	n := 0
	for _, b := range fr.fn.Blocks {
		for _, ins := range b.Instrs {
			if rr, ok := ins.(*ssa.Return); ok {
				n++
				if rr == r {
					return n
				}
			}
		}
	}
	return 0
}

// takeDefers removes and returns the pending deferred calls of frame fr (in registration order).
func (st *PState) takeDefers(fr *frame) []*ssa.Defer {
	var mine []*ssa.Defer
	var rest []deferRec
	for _, r := range st.deferred {
		if r.fr == fr {
			mine = append(mine, r.d)
		} else {
			rest = append(rest, r)
		}
	}
	st.deferred = rest
	return mine
}

// runDefers executes the deferred calls last-in first-out on the normal return path (SSA values are immutable, so
// evaluating the arguments now equals evaluating them at the defer statement; closures read captured variables now,
// as Go does). Deferred calls on panicking paths are not modelled (a panic is an outcome of its own).
func (fr *frame) runDefers(st *PState, ds []*ssa.Defer, k func(*PState)) {
	if len(ds) == 0 {
		k(st)
		return
	}
	d := ds[len(ds)-1]
	fr.call(st, d, &d.Call, func(st2 *PState, _ Val) {
		fr.runDefers(st2, ds[:len(ds)-1], k)
	})
}

// overBudget reports whether the exploration of the current top-level function has used up its budget (wall time
// or feasibility queries of `flag prune`). The function is then reported with CapHit: nothing about it is proved.
func (tc *topCtx) overBudget() bool {
	if tc.pruneN > GenPruneBudget {
		return true
	}
	return !tc.started.IsZero() && time.Since(tc.started) > GenTimeBudget
}

// GenTimeBudget / GenPruneBudget bound the verification-condition generation of one function.
var (
	GenTimeBudget  = 90 * time.Second
	GenPruneBudget = 1500
)

func (fr *frame) deferIsBenign(st *PState, d *ssa.Defer) bool {
	c := d.Call
	if c.IsInvoke() {
		return c.Method.Name() == "Close"
	}
	if f := c.StaticCallee(); f != nil {
		n := f.String()
		return strings.Contains(n, "telemetry") || strings.HasSuffix(n, ".Close")
	}
	return false
}

// val returns the symbolic value of an SSA value.
func (fr *frame) val(st *PState, v ssa.Value) Val {
	switch v := v.(type) {
	case *ssa.Const:
		return fr.constVal(st, v)
	case *ssa.Global:
		return &PtrVal{Kind: PGlobal, Global: v, Root: v.Type().(*types.Pointer).Elem()}
	case *ssa.Function:
		return &FuncVal{Fn: v}
	case *ssa.Builtin:
		return &OpaqueVal{Why: "builtin " + v.Name()}
	}
	if x, ok := st.env[v]; ok {
		return x
	}
	if fv, ok := v.(*ssa.FreeVar); ok {
		bail("free variable %s unbound in %s", fv.Name(), fr.fn)
	}
	bail("value %s (%T) not bound in %s", v.Name(), v, fr.fn)
	return nil
}

// term returns v as an SMT term (reifying executor-level values where possible).
func (fr *frame) term(st *PState, v ssa.Value) T {
	return fr.ex.reify(st, fr.val(st, v), v.Type())
}

// reify converts a Val to a term of the sort of Go type t.
func (ex *Exec) reify(st *PState, v Val, t types.Type) T {
	switch v := v.(type) {
	case T:
		return v
	case *PtrVal:
		return ex.ptrTerm(st, v)
	case *IfaceVal:
		if v.Term.IsZero() {
			v.Term = ex.ifaceTerm(st, v)
		}
		return v.Term
	case *FuncVal, *ClosureVal, *WriteCacheVal:
		r := st.Fresh("fn", SInt)
		return r
	case *ViewVal, *IterVal:
		r := st.Fresh("view", ex.Sorts.SortOf(t))
		return r
	case *OpaqueVal:
		r := st.Fresh("opaque", ex.Sorts.SortOf(t))
		r.Go = t
		return r
	case *ByteArrVal:
		return v.term(st)
	case *TupleVal:
		bail("tuple used as a term")
	}
	bail("cannot reify %T", v)
	return T{}
}

func (ex *Exec) ifaceTerm(st *PState, v *IfaceVal) T {
	tid := IntLit(int64(ex.TypeID(v.Dyn)))
	var pay T
	switch p := v.Payload.(type) {
	case T:
		if p.Sort == SInt {
			pay = p
		} else if p.Sort == SBytes {
			pay = App(SInt, "box_bytes", p)
			st.Assume(Eq(App(SBytes, "unbox_bytes", pay), p)) // instance of unbox(box(b)) = b
		} else {
			pay = st.Fresh("boxed", SInt)
		}
	case *PtrVal:
		pay = ex.ptrTerm(st, p)
	default:
		pay = st.Fresh("boxed", SInt)
	}
	return App(SIface, "imk", tid, pay)
}

// ptrTerm turns a pointer into a reference term, moving local cells to the heap when they escape.
func (ex *Exec) ptrTerm(st *PState, p *PtrVal) T {
	switch p.Kind {
	case PHeap:
		if len(p.Path) == 0 {
			return WithGo(p.Ref, types.NewPointer(p.Root))
		}
		bail("interior pointer into heap object escapes")
	case PLocal:
		if len(p.Path) != 0 {
			bail("interior pointer into local escapes")
		}
		c := st.cells[p.Cell]
		if isNamed(p.Root, "math/big", "Int") {
			if t, ok := c.(T); ok && t.Sort == SIntV {
				return WithGo(t, types.NewPointer(p.Root)) // *big.Int has value semantics in the model
			}
		}
		if f, ok := c.(*fwdCell); ok {
			return WithGo(f.Ref, types.NewPointer(p.Root))
		}
		ref := st.NewRef()
		name, h := st.Heap(p.Root)
		ct := ex.reify(st, c, p.Root)
		st.SetHeap(name, st.Name(name, Store(h, ref, ct)))
		st.cells[p.Cell] = &fwdCell{Ref: ref}
		return WithGo(ref, types.NewPointer(p.Root))
	case PGlobal:
		r := st.Fresh("gaddr", SInt)
		return r
	}
	bail("ptrTerm: bad pointer")
	return T{}
}

type fwdCell struct{ Ref T }

func (fr *frame) constVal(st *PState, c *ssa.Const) Val {
	t := c.Type()
	if c.Value == nil {
		return fr.ex.ZeroOf(t)
	}
	switch c.Value.Kind() {
	case constant.Bool:
		return Bool(constant.BoolVal(c.Value))
	case constant.Int:
		return fr.ex.constTerm(c.Value, t)
	case constant.String:
		return WithGo(fr.ex.Lits.Term(constant.StringVal(c.Value)), t)
	case constant.Float:
		f, _ := constant.Float64Val(c.Value)
		return T{S: fmt.Sprintf("%f", f), Sort: "Real", Go: t}
	}
	bail("constant %s", c)
	return nil
}

// ZeroOf returns the zero value of a Go type as a term.
func (ex *Exec) ZeroOf(t types.Type) T {
	s := ex.Sorts.SortOf(t)
	var r T
	switch s {
	case SBool:
		r = Bool(false)
	case SInt:
		r = IntLit(0)
	case "Real":
		r = T{S: "0.0", Sort: "Real"}
	case SBytes:
		if b, ok := t.Underlying().(*types.Basic); ok && b.Info()&types.IsString != 0 {
			r = ex.Lits.Term("")
		} else if isByteArray(t) {
			r = T{S: fmt.Sprintf("(bopq (- %d))", ex.TypeID(t)), Sort: SBytes} // the all-zero array of this type
		} else {
			r = T{S: "bnil", Sort: SBytes}
		}
	case SIntV:
		r = T{S: "(mkIntV true 0)", Sort: SIntV}
	case SDecV:
		r = T{S: "(mkDecV true 0)", Sort: SDecV}
	case SSlice:
		r = T{S: "(mkSlice 0 0 0 0)", Sort: SSlice}
	case SIface:
		r = T{S: "inil", Sort: SIface}
	case SCtx:
		r = T{S: "(mkCtx 0 0 0 bnil 0)", Sort: SCtx}
	case SUnit:
		r = T{S: "unit", Sort: SUnit}
	default:
		if si := ex.Sorts.StructInfoOf(t); si != nil {
			args := make([]T, len(si.Fields))
			for i, f := range si.Fields {
				args[i] = ex.ZeroOf(f.Go)
			}
			r = App(si.Sort, si.Ctor, args...)
		} else if arr, ok := t.Underlying().(*types.Array); ok {
			z := ex.ZeroOf(arr.Elem())
			r = T{S: fmt.Sprintf("((as const %s) %s)", s, z.S), Sort: s}
		} else {
			bail("zero value of %s (sort %s)", t, s)
		}
	}
	r.Go = t
	return r
}

// ---------------------------------------------------------------------------------------------
// memory

func (st *PState) loadGlobal(g *ssa.Global) Val {
	ex := st.ex
	et := g.Type().(*types.Pointer).Elem()
	if _, isFn := et.Underlying().(*types.Signature); isFn && g.Pkg != nil {
		return &GlobalFuncVal{Name: g.Pkg.Pkg.Path() + "." + g.Name()}
	}
	if t, ok := ex.globalConst(g); ok {
		return t
	}
	name := "g_" + sanitize(ShortName(g.Pkg.Pkg.Path())+"_"+g.Name())
	sort := ex.Sorts.SortOf(et)
	decl := fmt.Sprintf("(declare-const %s %s)", name, sort)
	found := false
	for _, d := range st.decls {
		if d == decl {
			found = true
			break
		}
	}
	t := T{S: name, Sort: sort, Go: et}
	if !found {
		st.decls = append(st.decls, decl)
		// package-level error sentinels and similar pointers are non-nil and allocated before entry
		if _, ok := et.Underlying().(*types.Pointer); ok {
			st.Assume(And(App(SBool, ">", t, IntLit(0)), App(SBool, "<", t, T{S: "REF0", Sort: SInt})))
		} else {
			st.TypeFacts(t, et, 0)
		}
	}
	return t
}

// LoadPtr reads through a pointer.
func (st *PState) LoadPtr(p *PtrVal) Val {
	ex := st.ex
	switch p.Kind {
	case PGlobal:
		root := st.loadGlobal(p.Global)
		return st.selPath(root, p.Root, p.Path)
	case PLocal:
		c := st.cells[p.Cell]
		if f, ok := c.(*fwdCell); ok {
			_, h := st.Heap(p.Root)
			root := WithGo(Select(h, f.Ref, ex.Sorts.SortOf(p.Root)), p.Root)
			return st.selPath(root, p.Root, p.Path)
		}
		if len(p.Path) == 0 {
			return c
		}
		if ba, ok := c.(*ByteArrVal); ok {
			return st.selPath(ba.term(st), p.Root, p.Path)
		}
		return st.selPath(c, p.Root, p.Path)
	case PHeap:
		_, h := st.Heap(p.Root)
		root := WithGo(Select(h, p.Ref, ex.Sorts.SortOf(p.Root)), p.Root)
		return st.selPath(root, p.Root, p.Path)
	case PSliceElem:
		el := st.SliceElem(p.Ref, *p.SIdx, p.Root)
		return st.selPath(el, p.Root, p.Path)
	}
	bail("LoadPtr: bad pointer kind")
	return nil
}

func (st *PState) selPath(root Val, rt types.Type, path []PathSel) Val {
	if len(path) == 0 {
		return root
	}
	cur, ok := root.(T)
	if !ok {
		bail("selection inside non-term value %T", root)
	}
	ct := rt
	for _, s := range path {
		if s.Index != nil {
			arr := ct.Underlying().(*types.Array)
			cur = WithGo(Select(cur, *s.Index, st.ex.Sorts.SortOf(arr.Elem())), arr.Elem())
			ct = arr.Elem()
			continue
		}
		si := st.ex.Sorts.StructInfoOf(ct)
		if si == nil {
			cur = st.specialField(cur, ct, s.Field)
		} else {
			cur = st.ex.Sorts.Field(cur, si, s.Field)
		}
		ct = s.Type
	}
	cur.Go = ct
	return cur
}

// specialField handles field reads on types mapped to built-in sorts (not modelled: fresh).
func (st *PState) specialField(x T, t types.Type, field int) T {
	ft := t.Underlying().(*types.Struct).Field(field).Type()
	r := st.FreshOf("fld", ft)
	return r
}

func (st *PState) updPath(root T, rt types.Type, path []PathSel, v T) T {
	if len(path) == 0 {
		return v
	}
	s := path[0]
	if s.Index != nil {
		arr := rt.Underlying().(*types.Array)
		inner := WithGo(Select(root, *s.Index, st.ex.Sorts.SortOf(arr.Elem())), arr.Elem())
		return WithGo(Store(root, *s.Index, st.updPath(inner, arr.Elem(), path[1:], v)), rt)
	}
	si := st.ex.Sorts.StructInfoOf(rt)
	if si == nil {
		bail("store into field of unmodelled struct %s", rt)
	}
	inner := st.ex.Sorts.Field(root, si, s.Field)
	return st.ex.Sorts.WithField(root, si, s.Field, st.updPath(inner, si.Fields[s.Field].Go, path[1:], v))
}

// StorePtr writes through a pointer.
func (st *PState) StorePtr(p *PtrVal, v Val) {
	ex := st.ex
	switch p.Kind {
	case PGlobal:
		bail("store to global %s", p.Global.Name())
	case PLocal:
		c := st.cells[p.Cell]
		if f, ok := c.(*fwdCell); ok {
			name, h := st.Heap(p.Root)
			old := WithGo(Select(h, f.Ref, ex.Sorts.SortOf(p.Root)), p.Root)
			nv := st.updPath(old, p.Root, p.Path, ex.reify(st, v, p.ElemType()))
			st.SetHeap(name, st.Name(name, Store(h, f.Ref, nv)))
			return
		}
		if len(p.Path) == 0 {
			st.cells[p.Cell] = v
			return
		}
		if ba, ok := c.(*ByteArrVal); ok && len(p.Path) == 1 && p.Path[0].Index != nil {
			if i, err := strconv.Atoi(p.Path[0].Index.S); err == nil && i >= 0 && i < len(ba.Elems) {
				nb := &ByteArrVal{Elems: append([]*T(nil), ba.Elems...)}
				t := ex.reify(st, v, p.ElemType())
				nb.Elems[i] = &t
				st.cells[p.Cell] = nb
				return
			}
			st.cells[p.Cell] = &ByteArrVal{Elems: make([]*T, len(ba.Elems)), Opaque: true}
			return
		}
		ct := ex.reify(st, c, p.Root)
		nv := st.updPath(ct, p.Root, p.Path, ex.reify(st, v, p.ElemType()))
		st.cells[p.Cell] = st.Name("cell", nv)
	case PHeap:
		name, h := st.Heap(p.Root)
		old := WithGo(Select(h, p.Ref, ex.Sorts.SortOf(p.Root)), p.Root)
		nv := st.updPath(old, p.Root, p.Path, ex.reify(st, v, p.ElemType()))
		st.SetHeap(name, st.Name(name, Store(h, p.Ref, nv)))
	case PSliceElem:
		old := st.SliceElem(p.Ref, *p.SIdx, p.Root)
		nv := st.updPath(old, p.Root, p.Path, ex.reify(st, v, p.ElemType()))
		st.SetSliceElem(p.Ref, *p.SIdx, p.Root, nv)
	default:
		bail("StorePtr: bad pointer kind")
	}
}

// slice backing heaps: SH_<elem> : (Array Int (Array Int Elem))
func (st *PState) sliceHeap(elem types.Type) (string, T, string) {
	es := st.ex.Sorts.SortOf(elem)
	name := "SH_" + sanitize(es)
	if n, ok := elem.(*types.Named); ok {
		name = "SH_" + sanitize(shortTypeName(n))
	}
	h, ok := st.heaps[name]
	if !ok {
		h = st.initHeap(name, fmt.Sprintf("(Array Int (Array Int %s))", es))
	}
	st.ex.Sorts.heaps[name] = "(Array Int " + es + ")"
	return name, h, es
}

func (st *PState) SliceElem(s T, i T, elem types.Type) T {
	_, h, es := st.sliceHeap(elem)
	arr := Select(h, App(SInt, "sbase", s), "(Array Int "+es+")")
	return WithGo(Select(arr, App(SInt, "+", App(SInt, "soff", s), i), es), elem)
}

func (st *PState) SetSliceElem(s T, i T, elem types.Type, v T) {
	name, h, es := st.sliceHeap(elem)
	base := App(SInt, "sbase", s)
	arr := Select(h, base, "(Array Int "+es+")")
	st.heaps[name] = st.Name(name, Store(h, base, Store(arr, App(SInt, "+", App(SInt, "soff", s), i), v)))
}

const PSliceElem = 3

// StateOf returns the State term of the cell of ctx.
func (st *PState) StateOf(ctx T) T {
	if ctx.Sort == SCtx {
		return Select(st.kv, App(SInt, "ctx_cell", ctx), SState)
	}
	return Select(st.kv, ctx, SState)
}

// ---------------------------------------------------------------------------------------------
// straight-line instructions

func (fr *frame) step(st *PState, ins ssa.Instruction) {
	ex := fr.ex
	switch ins := ins.(type) {
	case *ssa.DebugRef:
		return
	case *ssa.Alloc:
		et := ins.Type().(*types.Pointer).Elem()
		if isNamed(et, "math/big", "Int") {
			// new(big.Int): value semantics, the cell holds the IntV (non-nil, 0)
			id := st.NewCell(T{S: "(mkIntV false 0)", Sort: SIntV, Go: types.NewPointer(et)})
			st.env[ins] = &PtrVal{Kind: PLocal, Cell: id, Root: et}
			return
		}
		if arr, ok := et.Underlying().(*types.Array); ok && isByteArray(et) && arr.Len() <= 64 {
			// a local byte array ([]byte{c1, c2} literals): element-wise content
			id := st.NewCell(&ByteArrVal{Elems: make([]*T, arr.Len())})
			st.env[ins] = &PtrVal{Kind: PLocal, Cell: id, Root: et}
			return
		}
		id := st.NewCell(ex.ZeroOf(et))
		st.env[ins] = &PtrVal{Kind: PLocal, Cell: id, Root: et}
	case *ssa.Store:
		addr := fr.val(st, ins.Addr)
		p, ok := addr.(*PtrVal)
		if !ok {
			t := addr.(T)
			et := ins.Addr.Type().Underlying().(*types.Pointer).Elem()
			p = &PtrVal{Kind: PHeap, Ref: t, Root: et}
		}
		v := fr.val(st, ins.Val)
		st.StorePtr(p, v)
	case *ssa.UnOp:
		st.env[ins] = fr.unop(st, ins)
	case *ssa.BinOp:
		st.env[ins] = fr.binop(st, ins)
	case *ssa.FieldAddr:
		base := fr.val(st, ins.X)
		st_ := ins.X.Type().Underlying().(*types.Pointer).Elem()
		ft := st_.Underlying().(*types.Struct).Field(ins.Field).Type()
		switch b := base.(type) {
		case *PtrVal:
			np := *b
			np.Path = append(append([]PathSel(nil), b.Path...), PathSel{Field: ins.Field, Type: ft})
			st.env[ins] = &np
		case T:
			st.env[ins] = &PtrVal{Kind: PHeap, Ref: b, Root: st_, Path: []PathSel{{Field: ins.Field, Type: ft}}}
		default:
			bail("FieldAddr on %T", base)
		}
	case *ssa.Field:
		x := fr.term(st, ins.X)
		xt := ins.X.Type()
		si := ex.Sorts.StructInfoOf(xt)
		if si == nil {
			st.env[ins] = st.specialField(x, xt, ins.Field)
		} else {
			fv := ex.Sorts.Field(x, si, ins.Field)
			fr.loadFacts(st, fv, ins.Type())
			st.env[ins] = fv
		}
	case *ssa.IndexAddr:
		base := fr.val(st, ins.X)
		idx := fr.term(st, ins.Index)
		switch xt := ins.X.Type().Underlying().(type) {
		case *types.Pointer: // pointer to array
			arr := xt.Elem().Underlying().(*types.Array)
			fr.boundsCheck(st, idx, IntLit(arr.Len()), "index out of range")
			switch b := base.(type) {
			case *PtrVal:
				np := *b
				np.Path = append(append([]PathSel(nil), b.Path...), PathSel{Field: -1, Index: &idx, Type: arr.Elem()})
				st.env[ins] = &np
			case T:
				st.env[ins] = &PtrVal{Kind: PHeap, Ref: b, Root: xt.Elem(), Path: []PathSel{{Field: -1, Index: &idx, Type: arr.Elem()}}}
			}
		case *types.Slice:
			s := ex.reify(st, base, ins.X.Type())
			if s.Sort == SBytes {
				bail("address of byte-slice element")
			}
			fr.boundsCheck(st, idx, App(SInt, "slen", s), "index out of range")
			i2 := idx
			st.env[ins] = &PtrVal{Kind: PSliceElem, Ref: s, SIdx: &i2, Root: xt.Elem()}
		default:
			bail("IndexAddr on %s", ins.X.Type())
		}
	case *ssa.Index:
		x := fr.term(st, ins.X)
		idx := fr.term(st, ins.Index)
		switch xt := ins.X.Type().Underlying().(type) {
		case *types.Array:
			fr.boundsCheck(st, idx, IntLit(xt.Len()), "index out of range")
			if x.Sort == SBytes {
				st.env[ins] = WithGo(App(SInt, "bat", x, idx), xt.Elem())
			} else {
				st.env[ins] = WithGo(Select(x, idx, ex.Sorts.SortOf(xt.Elem())), xt.Elem())
			}
		case *types.Basic: // string
			fr.boundsCheck(st, idx, App(SInt, "blen", x), "index out of range")
			r := WithGo(App(SInt, "bat", x, idx), ins.Type())
			st.env[ins] = r
		default:
			bail("Index on %s", ins.X.Type())
		}
	case *ssa.Extract:
		tv := fr.val(st, ins.Tuple)
		tup, ok := tv.(*TupleVal)
		if !ok {
			bail("Extract from %T", tv)
		}
		st.env[ins] = tup.Elems[ins.Index]
	case *ssa.MakeInterface:
		st.env[ins] = &IfaceVal{Dyn: ins.X.Type(), Payload: fr.val(st, ins.X)}
	case *ssa.ChangeInterface:
		st.env[ins] = fr.val(st, ins.X)
	case *ssa.SliceToArrayPointer:
		// [N]byte(s) / (*[N]byte)(s) of a byte slice: a local array of unknown content (the relation to the bytes of
		// the slice is not kept); panics when the slice is shorter than the array
		x := fr.term(st, ins.X)
		at := ins.Type().(*types.Pointer).Elem()
		arr, ok := at.Underlying().(*types.Array)
		if !ok || !isByteArray(at) || x.Sort != SBytes {
			bail("%T of %s", ins, ins.X.Type())
		}
		fr.panicUnless(st, App(SBool, ">=", App(SInt, "blen", x), IntLit(arr.Len())), "slice shorter than array in conversion")
		id := st.NewCell(&ByteArrVal{Elems: make([]*T, arr.Len()), Opaque: true})
		st.env[ins] = &PtrVal{Kind: PLocal, Cell: id, Root: at}
	case *ssa.ChangeType:
		v := fr.val(st, ins.X)
		if t, ok := v.(T); ok {
			t = fr.ex.recast(t, ins.X.Type(), ins.Type())
			t.Go = ins.Type()
			v = t
		}
		st.env[ins] = v
	case *ssa.Convert:
		st.env[ins] = fr.convert(st, ins)
	case *ssa.TypeAssert:
		st.env[ins] = fr.typeAssert(st, ins)
	case *ssa.MakeClosure:
		var bind []Val
		for _, b := range ins.Bindings {
			bind = append(bind, fr.val(st, b))
		}
		st.env[ins] = &ClosureVal{Fn: ins.Fn.(*ssa.Function), Bind: bind}
	case *ssa.MakeSlice:
		st.env[ins] = fr.makeSlice(st, ins)
	case *ssa.Slice:
		st.env[ins] = fr.sliceOp(st, ins)
	case *ssa.MakeMap:
		st.env[ins] = fr.makeMap(st, ins)
	case *ssa.MapUpdate:
		fr.mapUpdate(st, ins)
	case *ssa.Lookup:
		st.env[ins] = fr.lookup(st, ins)
	case *ssa.Range:
		st.env[ins] = fr.rangeOp(st, ins)
	case *ssa.Next:
		st.env[ins] = fr.nextOp(st, ins)
	case *ssa.MultiConvert:
		bail("%T", ins)
	default:
		bail("instruction %T (%s)", ins, ins)
	}
}

// boundsCheck emits (or assumes) 0 <= idx < n.
func (fr *frame) boundsCheck(st *PState, idx, n T, why string) {
	ok := And(App(SBool, "<=", IntLit(0), idx), App(SBool, "<", idx, n))
	fr.panicUnless(st, ok, why)
}

// panicUnless: the program panics unless cond holds. With nopanic checking on this is an
// obligation; afterwards (and otherwise) cond is assumed (partial correctness).
func (fr *frame) panicUnless(st *PState, cond T, why string) {
	if cond.S == "true" {
		return
	}
	tc := fr.top
	if tc.nopanic != "" {
		o := &Obligation{Name: ShortName(tc.fn.String()) + "/" + tc.nopanic + "/nopanic:" + why, Func: tc.fn.String(), Label: tc.nopanic,
			Kind: "nopanic", Decls: append([]string(nil), st.decls...), PC: append([]T(nil), st.pc...), Goal: cond,
			Src: why + " in " + ShortName(fr.fn.String())}
		tc.addObl(o)
	}
	st.Assume(cond)
}

func (fr *frame) unop(st *PState, ins *ssa.UnOp) Val {
	switch ins.Op {
	case token.MUL: // load
		addr := fr.val(st, ins.X)
		switch p := addr.(type) {
		case *PtrVal:
			v := st.LoadPtr(p)
			if t, ok := v.(T); ok {
				t.Go = ins.Type()
				fr.loadFacts(st, t, ins.Type())
				return t
			}
			return v
		case T:
			et := ins.X.Type().Underlying().(*types.Pointer).Elem()
			fr.panicUnless(st, Not(Eq(p, IntLit(0))), "nil pointer dereference")
			return st.LoadPtr(&PtrVal{Kind: PHeap, Ref: p, Root: et})
		}
		bail("load from %T", addr)
	case token.NOT:
		return Not(fr.term(st, ins.X))
	case token.SUB:
		x := fr.term(st, ins.X)
		if x.Sort == "Real" {
			return WithGo(App("Real", "-", x), ins.Type())
		}
		return fr.wrap(App(SInt, "-", x), ins.Type())
	case token.XOR:
		x := fr.term(st, ins.X)
		return fr.wrap(App(SInt, "-", App(SInt, "-", x), IntLit(1)), ins.Type())
	case token.ARROW:
		bail("channel receive")
	}
	bail("unop %s", ins.Op)
	return nil
}

// wrap applies Go's fixed-width wrap-around to an integer term of type t.
func (fr *frame) wrap(x T, t types.Type) T {
	bits, signed, ok := intRange(t)
	if !ok {
		return WithGo(x, t)
	}
	m := new(big.Int).Lsh(newBig(1), uint(bits))
	if signed {
		return WithGo(App(SInt, "wraps", x, BigLit(m)), t)
	}
	return WithGo(App(SInt, "wrapu", x, BigLit(m)), t)
}

func (fr *frame) binop(st *PState, ins *ssa.BinOp) Val {
	xt := ins.X.Type()
	switch ins.Op {
	case token.EQL, token.NEQ:
		r := fr.equalVals(st, ins.X, ins.Y)
		if ins.Op == token.NEQ {
			return Not(r)
		}
		return r
	}
	x, y := fr.term(st, ins.X), fr.term(st, ins.Y)
	if x.Sort == SBytes && ins.Op == token.ADD {
		return WithGo(Cat(x, y), ins.Type())
	}
	if x.Sort == SBytes {
		// string ordering: uninterpreted
		switch ins.Op {
		case token.LSS:
			return App(SBool, "bytes_lt", x, y)
		case token.GTR:
			return App(SBool, "bytes_lt", y, x)
		case token.LEQ:
			return Not(App(SBool, "bytes_lt", y, x))
		case token.GEQ:
			return Not(App(SBool, "bytes_lt", x, y))
		}
	}
	if x.Sort == "Real" {
		switch ins.Op {
		case token.LSS, token.LEQ, token.GTR, token.GEQ:
			return App(SBool, ins.Op.String(), x, y)
		case token.ADD, token.SUB, token.MUL, token.QUO:
			return WithGo(App("Real", ins.Op.String(), x, y), ins.Type())
		}
	}
	if x.Sort != SInt {
		bail("binop %s on sort %s", ins.Op, x.Sort)
	}
	switch ins.Op {
	case token.LSS, token.LEQ, token.GTR, token.GEQ:
		return App(SBool, ins.Op.String(), x, y)
	case token.ADD, token.SUB, token.MUL:
		return st.Name("bin", fr.wrap(App(SInt, ins.Op.String(), x, y), ins.Type()))
	case token.QUO:
		fr.panicUnless(st, Not(Eq(y, IntLit(0))), "integer divide by zero")
		return st.Name("bin", fr.wrap(App(SInt, "tdiv", x, y), ins.Type()))
	case token.REM:
		fr.panicUnless(st, Not(Eq(y, IntLit(0))), "integer divide by zero")
		return st.Name("bin", WithGo(App(SInt, "tmod", x, y), ins.Type()))
	case token.SHL:
		// x << y  == x * 2^y (wrapped); 2^y via pow2 for constant y only
		if c, ok := ins.Y.(*ssa.Const); ok {
			n, _ := constant.Int64Val(c.Value)
			m := new(big.Int).Lsh(newBig(1), uint(n))
			return fr.wrap(App(SInt, "*", x, BigLit(m)), ins.Type())
		}
		return st.FreshOf("shl", ins.Type())
	case token.SHR:
		if c, ok := ins.Y.(*ssa.Const); ok {
			n, _ := constant.Int64Val(c.Value)
			m := new(big.Int).Lsh(newBig(1), uint(n))
			return WithGo(App(SInt, "div", x, BigLit(m)), ins.Type())
		}
		return st.FreshOf("shr", ins.Type())
	case token.AND, token.OR, token.XOR, token.AND_NOT:
		_ = xt
		r := st.FreshOf("bitop", ins.Type())
		fr.top.notes["bit operation "+ins.Op.String()+" abstracted (fresh value) in "+ShortName(fr.fn.String())] = true
		return r
	}
	bail("binop %s", ins.Op)
	return nil
}

func (fr *frame) equalVals(st *PState, xv, yv ssa.Value) T {
	x, y := fr.val(st, xv), fr.val(st, yv)
	// pointer comparisons involving executor-level pointers
	if px, ok := x.(*PtrVal); ok {
		if isNilConst(yv) {
			_ = px
			return Bool(false)
		}
	}
	if py, ok := y.(*PtrVal); ok {
		if isNilConst(xv) {
			_ = py
			return Bool(false)
		}
	}
	if ix, ok := x.(*IfaceVal); ok && isNilConst(yv) {
		_ = ix
		return Bool(false) // an interface built by MakeInterface is never nil
	}
	if iy, ok := y.(*IfaceVal); ok && isNilConst(xv) {
		_ = iy
		return Bool(false)
	}
	for _, v := range []Val{x, y} {
		switch v.(type) {
		case *FuncVal, *ClosureVal, *WriteCacheVal:
			return Bool(false) // func values only compare against nil
		}
	}
	tx := fr.ex.reify(st, x, xv.Type())
	ty := fr.ex.reify(st, y, yv.Type())
	if tx.Sort == SSlice {
		// slices only compare against nil
		if isNilConst(yv) {
			return Eq(App(SInt, "sbase", tx), IntLit(0))
		}
		return Eq(App(SInt, "sbase", ty), IntLit(0))
	}
	if tx.Sort != ty.Sort {
		bail("comparison of sorts %s and %s", tx.Sort, ty.Sort)
	}
	return Eq(tx, ty)
}

func isNilConst(v ssa.Value) bool {
	c, ok := v.(*ssa.Const)
	return ok && c.Value == nil
}

func (fr *frame) convert(st *PState, ins *ssa.Convert) Val {
	x := fr.term(st, ins.X)
	from, to := ins.X.Type(), ins.Type()
	fs, ts := fr.ex.Sorts.SortOf(from), fr.ex.Sorts.SortOf(to)
	switch {
	case fs == SInt && ts == SInt:
		if _, _, ok := intRange(to); ok {
			// value-preserving when it fits, wraps otherwise
			return st.Name("conv", fr.wrap(x, to))
		}
		return WithGo(x, to)
	case fs == SBytes && ts == SBytes:
		// string <-> []byte: same representation; string(nil) == ""
		if b, ok := to.Underlying().(*types.Basic); ok && b.Info()&types.IsString != 0 {
			return WithGo(Ite(Eq(x, T{S: "bnil", Sort: SBytes}), fr.ex.Lits.Term(""), x), to)
		}
		return WithGo(x, to)
	case fs == SInt && ts == SBytes:
		return st.FreshOf("runestr", to)
	case fs == SInt && ts == "Real":
		return WithGo(App("Real", "to_real", x), to)
	case fs == "Real" && ts == SInt:
		return st.FreshOf("f2i", to)
	case fs == "Real" && ts == "Real":
		return WithGo(x, to)
	}
	bail("convert %s -> %s", from, to)
	return nil
}

func (fr *frame) typeAssert(st *PState, ins *ssa.TypeAssert) Val {
	x := fr.val(st, ins.X)
	if iv, ok := x.(*IfaceVal); ok {
		if types.Identical(iv.Dyn, ins.AssertedType) {
			if ins.CommaOk {
				return &TupleVal{Elems: []Val{iv.Payload, Bool(true)}}
			}
			return iv.Payload
		}
		if _, isIface := ins.AssertedType.Underlying().(*types.Interface); isIface {
			if types.Implements(iv.Dyn, ins.AssertedType.Underlying().(*types.Interface)) {
				if ins.CommaOk {
					return &TupleVal{Elems: []Val{iv, Bool(true)}}
				}
				return iv
			}
		}
	}
	// unknown dynamic type: the assertion may succeed or fail
	xt := fr.ex.reify(st, x, ins.X.Type())
	tid := IntLit(int64(fr.ex.TypeID(ins.AssertedType)))
	var okc T
	if _, isIface := ins.AssertedType.Underlying().(*types.Interface); isIface {
		okc = st.Fresh("implements", SBool)
		st.Assume(Implies(okc, Not(Eq(xt, T{S: "inil", Sort: SIface}))))
	} else {
		okc = And(Not(Eq(xt, T{S: "inil", Sort: SIface})), Eq(App(SInt, "ityp", xt), tid))
	}
	var res Val
	rs := fr.ex.Sorts.SortOf(ins.AssertedType)
	switch {
	case rs == SIface:
		res = WithGo(xt, ins.AssertedType)
	case rs == SInt:
		res = WithGo(App(SInt, "ipay", xt), ins.AssertedType)
	default:
		res = st.FreshOf("asserted", ins.AssertedType)
	}
	if ins.CommaOk {
		return &TupleVal{Elems: []Val{res, okc}}
	}
	fr.panicUnless(st, okc, "failed type assertion")
	return res
}

// loadFacts assumes the range of a fixed-width integer (or the non-nilness of a string) that was read from
// memory: Go's type system guarantees it for every stored value.
func (fr *frame) loadFacts(st *PState, v T, t types.Type) {
	if _, _, ok := intRange(t); ok && v.Sort == SInt {
		if len(v.S) < 400 {
			st.TypeFacts(v, t, 0)
		}
		return
	}
	if b, ok := t.Underlying().(*types.Basic); ok && b.Info()&types.IsString != 0 && len(v.S) < 400 {
		st.Assume(Not(Eq(v, bnilT)))
	}
}

// infeasible asks the solver whether the path condition is unsatisfiable (only for contracts with
// `flag prune`, where exploring dead branches would explode): unsat -> the path is abandoned.
func (fr *frame) infeasible(st *PState) bool {
	if st.dead {
		return true
	}
	if fr.top.contract == nil || fr.top.contract.Flags["prune"] == "" {
		return false
	}
	o := &Obligation{Name: "prune", Kind: "prune", Decls: st.decls, PC: st.pc, Goal: Bool(false), Cover: true}
	fr.top.pruneN++
	file := filepath.Join(os.TempDir(), fmt.Sprintf("exovc_prune_%d_%d.smt2", os.Getpid(), fr.top.pruneN))
	os.WriteFile(file, []byte(fr.ex.SMTText(o, false)), 0o644)
	defer os.Remove(file)
	status, _, _ := runSolver(Solvers[0], file, 2*time.Second)
	return status == "unsat"
}

// ByteArrVal is the content of a local fixed-size byte array, element by element (nil = zero byte).
type ByteArrVal struct {
	Elems  []*T
	Opaque bool
}

// term renders the array as a byte string: a literal when every element is a known constant.
func (b *ByteArrVal) term(st *PState) T {
	if !b.Opaque {
		bs := make([]byte, len(b.Elems))
		ok := true
		for i, e := range b.Elems {
			if e == nil {
				continue
			}
			n, err := strconv.Atoi(e.S)
			if err != nil || n < 0 || n > 255 {
				ok = false
				break
			}
			bs[i] = byte(n)
		}
		if ok {
			return st.ex.Lits.Term(string(bs))
		}
	}
	r := st.Fresh("bytearr", SBytes)
	st.Assume(Not(Eq(r, bnilT)))
	st.Assume(Eq(App(SInt, "blen", r), IntLit(int64(len(b.Elems)))))
	return r
}

// recast converts a struct value between two named struct types with identical underlying type (a Go conversion
// T2(x)): each named struct type is its own datatype, so the value is rebuilt field by field.
func (ex *Exec) recast(t T, from, to types.Type) T {
	fs, ts := ex.Sorts.StructInfoOf(from), ex.Sorts.StructInfoOf(to)
	if fs == nil || ts == nil || fs.Sort == ts.Sort || len(fs.Fields) != len(ts.Fields) {
		return t
	}
	args := make([]T, len(ts.Fields))
	for i := range ts.Fields {
		f := ex.Sorts.Field(t, fs, i)
		if fs.Fields[i].Sort != ts.Fields[i].Sort {
			f = ex.recast(f, fs.Fields[i].Go, ts.Fields[i].Go)
		}
		args[i] = f
	}
	r := App(ts.Sort, ts.Ctor, args...)
	r.Go = to
	return r
}
