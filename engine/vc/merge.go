package vc

import (
	"reflect"

	"golang.org/x/tools/go/ssa"
)

// If-conversion of simple triangles and diamonds.
//
// A function that copies a dozen optional request fields into a record (`if p.X != "" { rec.X = p.X }`, thirteen times
// in UpdateAVSInfo) has 2^13 paths although nothing of interest depends on which fields were present. Where both arms
// of an `if` are straight-line blocks without calls that rejoin at the same block, the arms are executed on copies of
// the state and the copies are merged: every heap, store, trace, local cell and phi that differs becomes
// (ite cond then else), and what an arm assumed on its way (nil checks, type facts) is kept under its branch condition.
// Obligations raised inside an arm carry that arm's path condition as usual. The merged state is exactly the
// disjunction of the two path states, so nothing is lost or added; when an arm holds something that cannot be merged
// (executor-level values that differ, iterators, defers) the attempt is abandoned and the branch forks as before.

func simpleArm(b, from, join *ssa.BasicBlock) bool {
	if b == nil || len(b.Preds) != 1 || b.Preds[0] != from || len(b.Succs) != 1 || b.Succs[0] != join || len(b.Instrs) > 24 {
		return false
	}
	for i, ins := range b.Instrs {
		switch ins.(type) {
		case *ssa.Jump:
			if i != len(b.Instrs)-1 {
				return false
			}
		case *ssa.If, *ssa.Return, *ssa.Panic, *ssa.RunDefers, *ssa.Defer, *ssa.Go, *ssa.Select, *ssa.Send, *ssa.Call,
			*ssa.Phi, *ssa.Next, *ssa.Range, *ssa.MakeClosure, *ssa.MakeMap, *ssa.MapUpdate, *ssa.Lookup, *ssa.TypeAssert:
			return false
		}
	}
	return true
}

// mergeShape recognises `if c { T }`, `if c {} else { E }` and `if c { T } else { E }` with simple arms.
func (fr *frame) mergeShape(b *ssa.BasicBlock) (tArm, eArm, join *ssa.BasicBlock, ok bool) {
	tb, fb := b.Succs[0], b.Succs[1]
	if tb == fb {
		return nil, nil, nil, false
	}
	switch {
	case simpleArm(tb, b, fb):
		tArm, join = tb, fb
	case simpleArm(fb, b, tb):
		eArm, join = fb, tb
	case len(tb.Succs) == 1 && len(fb.Succs) == 1 && tb.Succs[0] == fb.Succs[0] && simpleArm(tb, b, tb.Succs[0]) && simpleArm(fb, b, fb.Succs[0]):
		tArm, eArm, join = tb, fb, tb.Succs[0]
	default:
		return nil, nil, nil, false
	}
	if _, isHead := fr.loops[join]; isHead {
		return nil, nil, nil, false
	}
	if _, isHead := fr.loops[b]; isHead {
		return nil, nil, nil, false
	}
	for _, arm := range []*ssa.BasicBlock{tArm, eArm} {
		if arm != nil {
			if _, isHead := fr.loops[arm]; isHead {
				return nil, nil, nil, false
			}
		}
	}
	return tArm, eArm, join, true
}

// runArm executes a simple arm on st (already a private copy with the branch condition assumed) and returns the values
// of join's phis seen from that arm.
func (fr *frame) runArm(st *PState, arm, from, join *ssa.BasicBlock) (phis map[*ssa.Phi]Val, ok bool) {
	defer func() {
		if r := recover(); r != nil {
			if _, isU := r.(unsupported); isU {
				ok = false
				return
			}
			panic(r)
		}
	}()
	pred := from
	if arm != nil {
		for _, ins := range arm.Instrs {
			if _, isJ := ins.(*ssa.Jump); isJ {
				break
			}
			if st.dead {
				break
			}
			fr.step(st, ins)
		}
		pred = arm
	}
	phis = map[*ssa.Phi]Val{}
	if st.dead {
		return phis, true
	}
	idx := -1
	for i, p := range join.Preds {
		if p == pred {
			idx = i
		}
	}
	if idx < 0 {
		return nil, false
	}
	for _, ins := range join.Instrs {
		phi, isPhi := ins.(*ssa.Phi)
		if !isPhi {
			break
		}
		phis[phi] = fr.val(st, phi.Edges[idx])
	}
	return phis, true
}

func mergeVal(c T, a, b Val) (Val, bool) {
	ta, oka := a.(T)
	tb, okb := b.(T)
	if oka && okb {
		if ta.S == tb.S {
			return ta, true
		}
		if ta.Sort != tb.Sort {
			return nil, false
		}
		r := Ite(c, ta, tb)
		r.Go = ta.Go
		return r, true
	}
	if oka != okb {
		return nil, false
	}
	if reflect.DeepEqual(a, b) {
		return a, true
	}
	return nil, false
}

// tryMerge attempts the if-conversion of the branch at the end of b; done=false means nothing has been changed and the
// caller forks as usual.
func (fr *frame) tryMerge(st *PState, b *ssa.BasicBlock, c T, visits map[*ssa.BasicBlock]int) (done bool) {
	tArm, eArm, join, ok := fr.mergeShape(b)
	if !ok {
		return false
	}
	tc := fr.top
	nObl := len(tc.obls)
	counts := make(map[string]int, len(tc.oblCount))
	for k, v := range tc.oblCount {
		counts[k] = v
	}
	undo := func() {
		tc.obls = tc.obls[:nObl]
		tc.oblCount = counts
	}
	base := len(st.pc)
	sT, sE := st.Clone(), st.Clone()
	sT.Assume(c)
	sE.Assume(Not(c))
	if len(sT.pc) != base+1 || len(sE.pc) != base+1 {
		return false
	}
	pT, okT := fr.runArm(sT, tArm, b, join)
	if !okT {
		undo()
		return false
	}
	// the else arm starts from the declarations the then arm has made, so that names stay unique and declared once
	sE.decls = append([]string(nil), sT.decls...)
	pE, okE := fr.runArm(sE, eArm, b, join)
	if !okE {
		undo()
		return false
	}
	switch {
	case sT.dead && sE.dead:
		return true
	case sT.dead:
		fr.continueAt(sE, join, pE, visits)
		return true
	case sE.dead:
		// sT lacks the declarations of the else arm; they are unused on this path
		fr.continueAt(sT, join, pT, visits)
		return true
	}
	m := st.Clone()
	m.decls = sE.decls
	m.pc = append([]T(nil), st.pc[:base]...)
	for _, a := range sT.pc[base+1:] {
		m.pc = append(m.pc, Implies(c, a))
	}
	for _, a := range sE.pc[base+1:] {
		m.pc = append(m.pc, Implies(Not(c), a))
	}
	m.notes = append(append([]string(nil), sT.notes...), sE.notes[len(st.notes):]...)
	m.bounded = sT.bounded || sE.bounded
	// heaps
	names := map[string]bool{}
	for n := range sT.heaps {
		names[n] = true
	}
	for n := range sE.heaps {
		names[n] = true
	}
	for n := range names {
		hT, inT := sT.heaps[n]
		hE, inE := sE.heaps[n]
		if !inT {
			hT = T{S: n + "_0", Sort: hE.Sort}
		}
		if !inE {
			hE = T{S: n + "_0", Sort: hT.Sort}
		}
		if hT.S == hE.S {
			m.heaps[n] = hT
		} else {
			m.heaps[n] = m.Name(n, Ite(c, hT, hE))
		}
	}
	if sT.kv.S != sE.kv.S {
		m.kv = m.Name("kv", Ite(c, sT.kv, sE.kv))
	}
	if sT.trace.S != sE.trace.S {
		m.trace = m.Name("trace", Ite(c, sT.trace, sE.trace))
	}
	if sT.traceN.S != sE.traceN.S {
		m.traceN = m.Name("traceN", Ite(c, sT.traceN, sE.traceN))
	}
	// local cells
	ids := map[int]bool{}
	for id := range sT.cells {
		ids[id] = true
	}
	for id := range sE.cells {
		ids[id] = true
	}
	for id := range ids {
		vT, inT := sT.cells[id]
		vE, inE := sE.cells[id]
		switch {
		case inT && inE:
			v, ok := mergeVal(c, vT, vE)
			if !ok {
				undo()
				return false
			}
			m.cells[id] = v
		case inT:
			m.cells[id] = vT // allocated in the then arm: unreachable from the other
		default:
			m.cells[id] = vE
		}
	}
	if len(sT.deferred) != len(st.deferred) || len(sE.deferred) != len(st.deferred) || !reflect.DeepEqual(sT.callRes, sE.callRes) {
		undo()
		return false
	}
	phis := map[*ssa.Phi]Val{}
	for p, vT := range pT {
		v, ok := mergeVal(c, vT, pE[p])
		if !ok {
			undo()
			return false
		}
		phis[p] = v
	}
	fr.continueAt(m, join, phis, visits)
	return true
}

func (fr *frame) continueAt(st *PState, join *ssa.BasicBlock, phis map[*ssa.Phi]Val, visits map[*ssa.BasicBlock]int) {
	for p, v := range phis {
		st.env[p] = v
	}
	if visits[join] > 64 {
		bail("block revisited too often (irreducible control flow?)")
	}
	nv := make(map[*ssa.BasicBlock]int, len(visits)+1)
	for k, v := range visits {
		nv[k] = v
	}
	nv[join]++
	fr.runInstrs(st, join, nil, nv, true)
}
