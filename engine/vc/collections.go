package vc

import (
	"fmt"
	"go/types"
	"strconv"
	"strings"

	"golang.org/x/tools/go/ssa"
)

func (fr *frame) makeSlice(st *PState, ins *ssa.MakeSlice) Val {
	ln := fr.term(st, ins.Len)
	cp := fr.term(st, ins.Cap)
	t := ins.Type()
	fr.panicUnless(st, And(App(SBool, ">=", ln, IntLit(0)), App(SBool, "<=", ln, cp)), "makeslice: len out of range")
	if isByteSlice(t) {
		r := st.Fresh("mkbytes", SBytes)
		st.Assume(Not(Eq(r, bnilT)))
		st.Assume(Eq(App(SInt, "blen", r), ln))
		return WithGo(r, t)
	}
	elem := t.Underlying().(*types.Slice).Elem()
	base := st.NewRef()
	name, h, es := st.sliceHeap(elem)
	z := fr.ex.ZeroOf(elem)
	arr := T{S: fmt.Sprintf("((as const (Array Int %s)) %s)", es, z.S), Sort: "(Array Int " + es + ")"}
	st.heaps[name] = st.Name(name, Store(h, base, arr))
	return WithGo(App(SSlice, "mkSlice", base, IntLit(0), ln, cp), t)
}

func (fr *frame) sliceOp(st *PState, ins *ssa.Slice) Val {
	ex := fr.ex
	xv := fr.val(st, ins.X)
	var lo, hi T
	haveLo, haveHi := ins.Low != nil, ins.High != nil
	if haveLo {
		lo = fr.term(st, ins.Low)
	} else {
		lo = IntLit(0)
	}
	if ins.Max != nil {
		bail("3-index slice")
	}
	switch xt := ins.X.Type().Underlying().(type) {
	case *types.Pointer: // pointer to array
		arr := xt.Elem().Underlying().(*types.Array)
		n := IntLit(arr.Len())
		if haveHi {
			hi = fr.term(st, ins.High)
		} else {
			hi = n
		}
		fr.panicUnless(st, And(App(SBool, "<=", IntLit(0), lo), App(SBool, "<=", lo, hi), App(SBool, "<=", hi, n)), "slice bounds out of range")
		var content T
		switch p := xv.(type) {
		case *PtrVal:
			content = ex.reify(st, st.LoadPtr(p), xt.Elem())
		case T:
			content = ex.reify(st, st.LoadPtr(&PtrVal{Kind: PHeap, Ref: p, Root: xt.Elem()}), xt.Elem())
		}
		if isByteArray(xt.Elem()) {
			if !haveLo && !haveHi {
				return WithGo(content, ins.Type())
			}
			return WithGo(App(SBytes, "bslice", content, lo, hi), ins.Type())
		}
		base := st.NewRef()
		name, h, _ := st.sliceHeap(arr.Elem())
		st.heaps[name] = st.Name(name, Store(h, base, content))
		// NOTE: the slice aliases the array in Go; here it is a copy (arrays sliced in the verified code are varargs temporaries).
		return WithGo(App(SSlice, "mkSlice", base, lo, ISub(hi, lo), ISub(n, lo)), ins.Type())
	case *types.Slice, *types.Basic:
		x := ex.reify(st, xv, ins.X.Type())
		if x.Sort == SBytes {
			n := App(SInt, "blen", x)
			if haveHi {
				hi = fr.term(st, ins.High)
			} else {
				hi = n
			}
			fr.panicUnless(st, And(App(SBool, "<=", IntLit(0), lo), App(SBool, "<=", lo, hi), App(SBool, "<=", hi, n)), "slice bounds out of range")
			if !haveLo && !haveHi {
				return WithGo(x, ins.Type())
			}
			r := st.Name("bsl", App(SBytes, "bslice", x, lo, hi))
			st.Assume(Eq(App(SInt, "blen", r), App(SInt, "-", hi, lo)))
			return WithGo(r, ins.Type())
		}
		if haveHi {
			hi = fr.term(st, ins.High)
		} else {
			hi = App(SInt, "slen", x)
		}
		fr.panicUnless(st, And(App(SBool, "<=", IntLit(0), lo), App(SBool, "<=", lo, hi), App(SBool, "<=", hi, App(SInt, "scap", x))), "slice bounds out of range")
		return WithGo(App(SSlice, "mkSlice", App(SInt, "sbase", x), IAdd(App(SInt, "soff", x), lo), ISub(hi, lo), ISub(App(SInt, "scap", x), lo)), ins.Type())
	}
	bail("slice of %s", ins.X.Type())
	return nil
}

// appendOp models append(s, t...). The result always lives in a fresh backing array (copy
// semantics): sound for the result value; the aliasing of the spare capacity of s is not modelled.
func (fr *frame) appendOp(st *PState, c *ssa.CallCommon) Val {
	ex := fr.ex
	s := fr.term(st, c.Args[0])
	t := fr.term(st, c.Args[1])
	rt := c.Args[0].Type()
	if s.Sort == SBytes {
		// append([]byte, []byte...) / append([]byte, string...)
		if s.S == "bnil" || s.S == fr.ex.Lits.Term("").S {
			// append(nil, t...) is t's content
			return WithGo(t, rt)
		}
		r := Cat(s, t)
		st.Assume(Eq(App(SInt, "blen", r), App(SInt, "+", App(SInt, "blen", s), App(SInt, "blen", t))))
		return WithGo(r, rt)
	}
	elem := rt.Underlying().(*types.Slice).Elem()
	name, h, es := st.sliceHeap(elem)
	asort := "(Array Int " + es + ")"
	sl, tl := App(SInt, "slen", s), App(SInt, "slen", t)
	soff := App(SInt, "soff", s)
	sarr := Select(h, App(SInt, "sbase", s), asort)
	tarr := Select(h, App(SInt, "sbase", t), asort)
	base := st.NewRef()
	var narr T
	if n, ok := constSliceLen(t); ok && n <= 8 {
		narr = sarr
		for i := 0; i < n; i++ {
			el := Select(tarr, App(SInt, "+", App(SInt, "soff", t), IntLit(int64(i))), es)
			narr = Store(narr, App(SInt, "+", soff, sl, IntLit(int64(i))), el)
		}
		narr = st.Name("apparr", narr)
	} else {
		narr = st.Fresh("apparr", asort)
		ex.fresh++
		q := fmt.Sprintf("qa_%d", ex.fresh)
		st.Assume(mk(SBool, "(forall ((%s Int)) (! (=> (and (<= 0 %s) (< %s %s)) (= (select %s (+ %s %s)) (select %s (+ %s %s)))) :pattern ((select %s (+ %s %s)))))",
			q, q, q, sl.S, narr.S, soff.S, q, sarr.S, soff.S, q, narr.S, soff.S, q))
		st.Assume(mk(SBool, "(forall ((%s Int)) (! (=> (and (<= 0 %s) (< %s %s)) (= (select %s (+ %s %s %s)) (select %s (+ %s %s)))) :pattern ((select %s (+ %s %s %s)))))",
			q, q, q, tl.S, narr.S, soff.S, sl.S, q, tarr.S, App(SInt, "soff", t).S, q, narr.S, soff.S, sl.S, q))
	}
	st.heaps[name] = st.Name(name, Store(st.heaps[name], base, narr))
	ncap := st.Fresh("cap", SInt)
	nl := st.Name("applen", App(SInt, "+", sl, tl))
	st.Assume(App(SBool, ">=", ncap, nl))
	return WithGo(App(SSlice, "mkSlice", base, soff, nl, ncap), rt)
}

func constSliceLen(t T) (int, bool) {
	// matches (mkSlice <base> <off> N <cap>) with literal N
	sx, err := parseSexprs(t.S)
	if err != nil || len(sx) != 1 || len(sx[0].list) != 5 || sx[0].list[0].atom != "mkSlice" {
		return 0, false
	}
	n, err := strconv.Atoi(sx[0].list[3].atom)
	if err != nil {
		return 0, false
	}
	return n, true
}

// ---------------------------------------------------------------------------------------------
// maps: reference into two heaps (domain, values)

func (st *PState) mapHeaps(mt *types.Map) (dn string, d T, vn string, v T, ks, vs string) {
	ks, vs = st.ex.Sorts.SortOf(mt.Key()), st.ex.Sorts.SortOf(mt.Elem())
	id := sanitize(ks + "_" + vs)
	dn, vn = "MD_"+id, "MV_"+id
	var ok bool
	if d, ok = st.heaps[dn]; !ok {
		d = st.initHeap(dn, fmt.Sprintf("(Array Int (Array %s Bool))", ks))
	}
	if v, ok = st.heaps[vn]; !ok {
		v = st.initHeap(vn, fmt.Sprintf("(Array Int (Array %s %s))", ks, vs))
	}
	return
}

func (fr *frame) makeMap(st *PState, ins *ssa.MakeMap) Val {
	mt := ins.Type().Underlying().(*types.Map)
	ref := st.NewRef()
	dn, d, _, _, ks, _ := st.mapHeaps(mt)
	empty := T{S: fmt.Sprintf("((as const (Array %s Bool)) false)", ks), Sort: fmt.Sprintf("(Array %s Bool)", ks)}
	st.heaps[dn] = st.Name(dn, Store(d, ref, empty))
	return WithGo(ref, ins.Type())
}

func (fr *frame) mapUpdate(st *PState, ins *ssa.MapUpdate) {
	mt := ins.Map.Type().Underlying().(*types.Map)
	m := fr.term(st, ins.Map)
	k := fr.term(st, ins.Key)
	v := fr.term(st, ins.Value)
	fr.panicUnless(st, Not(Eq(m, IntLit(0))), "assignment to entry in nil map")
	dn, d, vn, vh, ks, vs := st.mapHeaps(mt)
	dom := Select(d, m, fmt.Sprintf("(Array %s Bool)", ks))
	vals := Select(vh, m, fmt.Sprintf("(Array %s %s)", ks, vs))
	st.heaps[dn] = st.Name(dn, Store(d, m, Store(dom, k, Bool(true))))
	st.heaps[vn] = st.Name(vn, Store(vh, m, Store(vals, k, v)))
}

func (fr *frame) mapDelete(st *PState, c *ssa.CallCommon) {
	mt := c.Args[0].Type().Underlying().(*types.Map)
	m := fr.term(st, c.Args[0])
	k := fr.term(st, c.Args[1])
	dn, d, _, _, ks, _ := st.mapHeaps(mt)
	dom := Select(d, m, fmt.Sprintf("(Array %s Bool)", ks))
	st.heaps[dn] = st.Name(dn, Store(d, m, Store(dom, k, Bool(false))))
}

func (fr *frame) mapLen(st *PState, m T, mt *types.Map) Val {
	r := st.Fresh("maplen", SInt)
	st.Assume(App(SBool, ">=", r, IntLit(0)))
	return r
}

func (fr *frame) lookup(st *PState, ins *ssa.Lookup) Val {
	switch xt := ins.X.Type().Underlying().(type) {
	case *types.Map:
		m := fr.term(st, ins.X)
		k := fr.term(st, ins.Index)
		_, d, _, vh, ks, vs := st.mapHeaps(xt)
		dom := Select(d, m, fmt.Sprintf("(Array %s Bool)", ks))
		vals := Select(vh, m, fmt.Sprintf("(Array %s %s)", ks, vs))
		present := And(Not(Eq(m, IntLit(0))), Select(dom, k, SBool))
		z := fr.ex.ZeroOf(xt.Elem())
		v := WithGo(Ite(present, Select(vals, k, vs), z), xt.Elem())
		v = st.Name("mapget", v)
		if ins.CommaOk {
			return &TupleVal{Elems: []Val{v, present}}
		}
		return v
	case *types.Basic: // string index
		x := fr.term(st, ins.X)
		i := fr.term(st, ins.Index)
		fr.boundsCheck(st, i, App(SInt, "blen", x), "index out of range")
		return WithGo(App(SInt, "bat", x, i), ins.Type())
	}
	bail("lookup on %s", ins.X.Type())
	return nil
}

// RangeVal is the iterator of a range over a map or string.
type RangeVal struct {
	Map  T
	MT   *types.Map
	Seq  T // (Array Int K): arbitrary enumeration of the domain at range start
	N    T
	IdxC int
}

func (fr *frame) rangeOp(st *PState, ins *ssa.Range) Val {
	mt, ok := ins.X.Type().Underlying().(*types.Map)
	if !ok {
		bail("range over %s", ins.X.Type())
	}
	m := fr.term(st, ins.X)
	ks := fr.ex.Sorts.SortOf(mt.Key())
	seq := st.Fresh("rngseq", fmt.Sprintf("(Array Int %s)", ks))
	n := st.Fresh("rngn", SInt)
	st.Assume(App(SBool, ">=", n, IntLit(0)))
	st.Assume(Implies(Eq(m, IntLit(0)), Eq(n, IntLit(0))))
	rv := &RangeVal{Map: m, MT: mt, Seq: seq, N: n}
	rv.IdxC = st.NewCell(IntLit(0))
	// the enumeration lists exactly the keys present at range start, each once (arbitrary order)
	_, d, _, _, _, _ := st.mapHeaps(mt)
	dom := Select(d, m, fmt.Sprintf("(Array %s Bool)", ks))
	fr.ex.fresh++
	q := fmt.Sprintf("qr_%d", fr.ex.fresh)
	q2 := fmt.Sprintf("qs_%d", fr.ex.fresh)
	st.Assume(mk(SBool, "(forall ((%s Int)) (! (=> (and (<= 0 %s) (< %s %s)) (select %s (select %s %s))) :pattern ((select %s %s))))", q, q, q, n.S, dom.S, seq.S, q, seq.S, q))
	st.Assume(mk(SBool, "(forall ((%s Int) (%s Int)) (=> (and (<= 0 %s) (< %s %s) (< %s %s)) (not (= (select %s %s) (select %s %s)))))", q, q2, q, q, q2, q2, n.S, seq.S, q, seq.S, q2))
	return rv
}

func (fr *frame) nextOp(st *PState, ins *ssa.Next) Val {
	rvv := fr.val(st, ins.Iter)
	rv, ok := rvv.(*RangeVal)
	if !ok {
		bail("next on %T", rvv)
	}
	idx := st.cells[rv.IdxC].(T)
	okc := App(SBool, "<", idx, rv.N)
	ks, vs := fr.ex.Sorts.SortOf(rv.MT.Key()), fr.ex.Sorts.SortOf(rv.MT.Elem())
	key := WithGo(Select(rv.Seq, idx, ks), rv.MT.Key())
	_, _, _, vh, _, _ := st.mapHeaps(rv.MT)
	vals := Select(vh, rv.Map, fmt.Sprintf("(Array %s %s)", ks, vs))
	val := WithGo(Select(vals, key, vs), rv.MT.Elem())
	st.cells[rv.IdxC] = st.Name("rngidx", Ite(okc, App(SInt, "+", idx, IntLit(1)), idx))
	return &TupleVal{Elems: []Val{okc, key, val}}
}

// ---------------------------------------------------------------------------------------------
// syntactic select-over-store resolution for freshly built variadic slices
//
// AppendMany(a, b, c) receives its parts through a slice the caller has just filled: the element terms are
// (select (select SH base) i) over a chain of stores. Byte-string concatenation is kept in a right-nested normal form
// by Cat, which cannot see through a select; resolving the reads here (pure rewriting with the array axioms, bases
// (+ REF0 k) with different literal k being different integers) lets a key built from parts that are themselves
// concatenations reach the normal form the specifications use.

func (st *PState) defOf(name string) (string, bool) {
	pfx := "(define-fun " + name + " () "
	for i := len(st.decls) - 1; i >= 0; i-- {
		d := st.decls[i]
		if strings.HasPrefix(d, pfx) {
			sx, err := parseSexprs(d)
			if err != nil || len(sx) != 1 || len(sx[0].list) != 5 {
				return "", false
			}
			return sx[0].list[4].String(), true
		}
	}
	return "", false
}

func refOffset(s string) (int, bool) {
	sx, err := parseSexprs(s)
	if err != nil || len(sx) != 1 || len(sx[0].list) != 3 || sx[0].list[0].atom != "+" || sx[0].list[1].atom != "REF0" {
		return 0, false
	}
	n, err := strconv.Atoi(sx[0].list[2].atom)
	return n, err == nil
}

// resolveSelect rewrites (select arr idx) when arr is a chain of stores whose indices are syntactically equal to idx or
// provably different from it (distinct literals, distinct (+ REF0 k)).
func (st *PState) resolveSelect(arr string, idx string) (string, bool) {
	for n := 0; n < 64; n++ {
		if !strings.HasPrefix(arr, "(") {
			body, ok := st.defOf(arr)
			if !ok {
				return "", false
			}
			arr = body
			continue
		}
		sx, err := parseSexprs(arr)
		if err != nil || len(sx) != 1 || len(sx[0].list) != 4 || sx[0].list[0].atom != "store" {
			return "", false
		}
		j := sx[0].list[2].String()
		if j == idx {
			return sx[0].list[3].String(), true
		}
		differ := false
		if a, e1 := strconv.Atoi(j); e1 == nil {
			if b, e2 := strconv.Atoi(idx); e2 == nil && a != b {
				differ = true
			}
		}
		if a, ok1 := refOffset(j); ok1 {
			if b, ok2 := refOffset(idx); ok2 && a != b {
				differ = true
			}
		}
		if !differ {
			return "", false
		}
		arr = sx[0].list[1].String()
	}
	return "", false
}

// resolvedSliceElem is SliceElem with the read resolved syntactically where the slice is (mkSlice base off ...) with a
// literal offset and the backing array was written at literal indices; ok=false leaves the caller with SliceElem.
func (st *PState) resolvedSliceElem(s T, i int, elem types.Type) (T, bool) {
	sx, err := parseSexprs(s.S)
	if err != nil || len(sx) != 1 || len(sx[0].list) != 5 || sx[0].list[0].atom != "mkSlice" {
		return T{}, false
	}
	off, err := strconv.Atoi(sx[0].list[2].atom)
	if err != nil {
		return T{}, false
	}
	_, h, es := st.sliceHeap(elem)
	cell, ok := st.resolveSelect(h.S, sx[0].list[1].String())
	if !ok {
		return T{}, false
	}
	v, ok := st.resolveSelect(cell, strconv.Itoa(off+i))
	if !ok {
		return T{}, false
	}
	return WithGo(T{S: v, Sort: es}, elem), true
}
