package vc

import (
	"fmt"
	"go/types"
	"sort"
	"strings"
)

// StructInfo describes the SMT datatype generated for a Go struct type.
type StructInfo struct {
	Sort   string
	Ctor   string
	Fields []FieldInfo
	Go     types.Type
	order  int
}

type FieldInfo struct {
	Name string // Go field name
	Acc  string // SMT accessor
	Sort string
	Go   types.Type
}

// Sorts is the registry of generated datatypes (per run).
type Sorts struct {
	structs map[string]*StructInfo // by sort name
	byType  map[string]*StructInfo // by types.TypeString
	heaps   map[string]string      // heap array name -> element sort
	n       int
}

func NewSorts() *Sorts {
	return &Sorts{structs: map[string]*StructInfo{}, byType: map[string]*StructInfo{}, heaps: map[string]string{}}
}

func typeKey(t types.Type) string { return types.TypeString(t, nil) }

func isNamed(t types.Type, path, name string) bool {
	n, ok := t.(*types.Named)
	if !ok {
		return false
	}
	o := n.Obj()
	return o.Name() == name && o.Pkg() != nil && o.Pkg().Path() == path
}

func isByteSlice(t types.Type) bool {
	s, ok := t.Underlying().(*types.Slice)
	if !ok {
		return false
	}
	b, ok := s.Elem().Underlying().(*types.Basic)
	return ok && (b.Kind() == types.Byte || b.Kind() == types.Uint8)
}

func isByteArray(t types.Type) bool {
	s, ok := t.Underlying().(*types.Array)
	if !ok {
		return false
	}
	b, ok := s.Elem().Underlying().(*types.Basic)
	return ok && (b.Kind() == types.Byte || b.Kind() == types.Uint8)
}

func isBigIntPtr(t types.Type) bool {
	p, ok := t.(*types.Pointer)
	return ok && isNamed(p.Elem(), "math/big", "Int")
}

// SortOf maps a Go type to its SMT sort, generating datatypes on demand.
func (s *Sorts) SortOf(t types.Type) string {
	switch {
	case isNamed(t, "cosmossdk.io/math", "Int"):
		return SIntV
	case isNamed(t, "cosmossdk.io/math", "LegacyDec"):
		return SDecV
	case isNamed(t, "cosmossdk.io/math", "Uint"):
		return SIntV
	case isNamed(t, "github.com/cosmos/cosmos-sdk/types", "Context"):
		return SCtx
	case isNamed(t, "time", "Time"):
		return SInt
	case isBigIntPtr(t):
		return SIntV
	}
	switch u := t.Underlying().(type) {
	case *types.Basic:
		switch {
		case u.Info()&types.IsBoolean != 0:
			return SBool
		case u.Info()&types.IsInteger != 0:
			return SInt
		case u.Info()&types.IsString != 0:
			return SBytes
		case u.Info()&types.IsFloat != 0:
			return "Real"
		case u.Kind() == types.UnsafePointer:
			return SInt
		case u.Kind() == types.UntypedNil:
			return SInt
		}
		return SInt
	case *types.Pointer:
		return SInt
	case *types.Slice:
		if isByteSlice(t) {
			return SBytes
		}
		return SSlice
	case *types.Array:
		if isByteArray(t) {
			return SBytes
		}
		return fmt.Sprintf("(Array Int %s)", s.SortOf(u.Elem()))
	case *types.Map:
		return SInt
	case *types.Interface:
		return SIface
	case *types.Signature:
		return SInt
	case *types.Chan:
		return SInt
	case *types.Struct:
		return s.structOf(t, u).Sort
	case *types.Tuple:
		return SUnit
	}
	return SInt
}

func (s *Sorts) structOf(t types.Type, u *types.Struct) *StructInfo {
	key := typeKey(t)
	if si, ok := s.byType[key]; ok {
		return si
	}
	name := "S_" + sanitize(shortTypeName(t))
	if _, dup := s.structs[name]; dup {
		s.n++
		name = fmt.Sprintf("%s_%d", name, s.n)
	}
	si := &StructInfo{Sort: name, Ctor: "mk_" + name, Go: t}
	s.byType[key] = si
	s.structs[name] = si
	for i := 0; i < u.NumFields(); i++ {
		f := u.Field(i)
		fs := s.SortOf(f.Type())
		si.Fields = append(si.Fields, FieldInfo{Name: f.Name(), Acc: fmt.Sprintf("%s_%s", name, sanitize(f.Name())), Sort: fs, Go: f.Type()})
	}
	s.n++
	si.order = s.n // assigned after fields: dependencies get smaller order numbers
	return si
}

func shortTypeName(t types.Type) string {
	if n, ok := t.(*types.Named); ok {
		o := n.Obj()
		if o.Pkg() != nil {
			p := o.Pkg().Path()
			p = strings.TrimPrefix(p, "github.com/ExocoreNetwork/exocore/")
			p = strings.TrimPrefix(p, "github.com/")
			return p + "." + o.Name()
		}
		return o.Name()
	}
	return "anon_" + typeKey(t)
}

// StructInfoOf returns the datatype of a struct-typed Go type (nil if not a struct).
func (s *Sorts) StructInfoOf(t types.Type) *StructInfo {
	if t == nil {
		return nil
	}
	switch {
	case isNamed(t, "cosmossdk.io/math", "Int"), isNamed(t, "cosmossdk.io/math", "LegacyDec"),
		isNamed(t, "cosmossdk.io/math", "Uint"),
		isNamed(t, "github.com/cosmos/cosmos-sdk/types", "Context"), isNamed(t, "time", "Time"):
		return nil
	}
	u, ok := t.Underlying().(*types.Struct)
	if !ok {
		return nil
	}
	return s.structOf(t, u)
}

// Heap returns the name of the heap array for pointee type t ((Array Int sort(t))).
func (s *Sorts) Heap(t types.Type) (name string, elemSort string) {
	es := s.SortOf(t)
	name = "H_" + sanitize(shortTypeName(t))
	if _, ok := t.(*types.Named); !ok {
		name = "H_" + sanitize(es)
	}
	s.heaps[name] = es
	return name, es
}

// Decls emits the datatype declarations in dependency order.
func (s *Sorts) Decls() string {
	var xs []*StructInfo
	for _, si := range s.structs {
		xs = append(xs, si)
	}
	sort.Slice(xs, func(i, j int) bool { return xs[i].order < xs[j].order })
	var sb strings.Builder
	for _, si := range xs {
		fmt.Fprintf(&sb, "(declare-datatypes ((%s 0)) (((%s", si.Sort, si.Ctor)
		for _, f := range si.Fields {
			fmt.Fprintf(&sb, " (%s %s)", f.Acc, f.Sort)
		}
		sb.WriteString("))))\n")
	}
	return sb.String()
}

// Field builds the accessor term for field i of struct term x.
func (s *Sorts) Field(x T, si *StructInfo, i int) T {
	f := si.Fields[i]
	// simplify (acc (mk ...)) is left to the solver
	r := App(f.Sort, f.Acc, x)
	r.Go = f.Go
	return r
}

// WithField rebuilds struct term x with field i replaced by v.
func (s *Sorts) WithField(x T, si *StructInfo, i int, v T) T {
	args := make([]T, len(si.Fields))
	for j := range si.Fields {
		if j == i {
			args[j] = v
		} else {
			args[j] = s.Field(x, si, j)
		}
	}
	r := App(si.Sort, si.Ctor, args...)
	r.Go = si.Go
	return r
}

// intRange returns (lo, hi, bits, signed) for fixed-width Go integer types; ok=false otherwise.
func intRange(t types.Type) (bits int, signed bool, ok bool) {
	b, isb := t.Underlying().(*types.Basic)
	if !isb || b.Info()&types.IsInteger == 0 {
		return 0, false, false
	}
	switch b.Kind() {
	case types.Int8:
		return 8, true, true
	case types.Int16:
		return 16, true, true
	case types.Int32:
		return 32, true, true
	case types.Int64, types.Int:
		return 64, true, true
	case types.Uint8:
		return 8, false, true
	case types.Uint16:
		return 16, false, true
	case types.Uint32:
		return 32, false, true
	case types.Uint64, types.Uint, types.Uintptr:
		return 64, false, true
	}
	return 0, false, false
}
