package vc

import (
	"go/types"
	"strings"

	"golang.org/x/tools/go/ssa"
)

// libCall is the context handed to a library model.
type libCall struct {
	ssaArgs []ssa.Value
	fr      *frame
	st      *PState
	args    []Val
	sig     *types.Signature
	name    string
}

func (c *libCall) arg(i int) T {
	// receiver (if any) is args[0]
	var t types.Type
	n := i
	if c.sig.Recv() != nil {
		if i == 0 {
			t = c.sig.Recv().Type()
		} else {
			n = i - 1
		}
	}
	if t == nil && n < c.sig.Params().Len() {
		t = c.sig.Params().At(n).Type()
	}
	return c.fr.ex.reify(c.st, c.args[i], t)
}

func (c *libCall) panicUnless(cond T, why string) {
	c.fr.panicUnless(c.st, cond, why+" ("+shortLib(c.name)+")")
}

func shortLib(n string) string {
	n = strings.ReplaceAll(n, "cosmossdk.io/math.", "math.")
	n = strings.ReplaceAll(n, "github.com/cosmos/cosmos-sdk/types.", "sdk.")
	return n
}

type libModel func(c *libCall) (Val, bool)

var libModels = map[string]libModel{}

const (
	mathInt = "(cosmossdk.io/math.Int)."
	mathDec = "(cosmossdk.io/math.LegacyDec)."
	mathPkg = "cosmossdk.io/math."
	sdkPkg  = "github.com/cosmos/cosmos-sdk/types."
	sdkCtx  = "(github.com/cosmos/cosmos-sdk/types.Context)."
)

func intv(v T) T    { return App(SIntV, "mkIntV", Bool(false), v) }
func decv(v T) T    { return App(SDecV, "mkDecV", Bool(false), v) }
func ival(x T) T    { return App(SInt, "val", x) }
func dval(x T) T    { return App(SInt, "dval", x) }
func inil(x T) T    { return App(SBool, "isnil", x) }
func dnil(x T) T    { return App(SBool, "disnil", x) }
func fits256(x T) T { return App(SBool, "fits256", x) }
func fits315(x T) T { return App(SBool, "fits315", x) }

var p18 = T{S: "P18", Sort: SInt}

func init() {
	// ---- sort.Slice / sort.SliceStable: only the elements of the given slice are rearranged (the less function is
	// assumed not to write anything; which permutation results is left open)
	sortSlice := func(c *libCall) (Val, bool) {
		mi, ok := c.ssaArgs[0].(*ssa.MakeInterface)
		if !ok {
			return nil, false
		}
		sl, ok := mi.X.Type().Underlying().(*types.Slice)
		if !ok {
			return nil, false
		}
		sv := c.fr.ex.reify(c.st, c.fr.val(c.st, mi.X), mi.X.Type())
		name, h, es := c.st.sliceHeap(sl.Elem())
		c.st.heaps[name] = c.st.Name(name, Store(h, App(SInt, "sbase", sv), c.st.Fresh("sorted", "(Array Int "+es+")")))
		c.fr.ex.Assumed["sort.Slice: the less function has no side effect; the result is some rearrangement of the slice (order not specified)"] = true
		return T{S: "unit", Sort: SUnit}, true
	}
	libModels["sort.Slice"] = sortSlice
	libModels["sort.SliceStable"] = sortSlice

	// ---- sdk.DecCoins (per-denomination abstraction dcv, see prelude.smt2) ------------------
	const decCoins = "(github.com/cosmos/cosmos-sdk/types.DecCoins)."
	dcv := func(x T) T { return App(SInt, "dcv", x) }
	dcResult := func(c *libCall, v T) T {
		r := c.st.FreshOf("deccoins", c.sig.Results().At(0).Type())
		c.st.Assume(Eq(dcv(r), c.st.Name("dc", v)))
		return r
	}
	libModels[decCoins+"Add"] = func(c *libCall) (Val, bool) {
		a, b := c.arg(0), c.arg(1)
		c.st.Assume(And(App(SBool, ">=", dcv(a), IntLit(0)), App(SBool, ">=", dcv(b), IntLit(0))))
		return dcResult(c, App(SInt, "+", dcv(a), dcv(b))), true
	}
	libModels[decCoins+"Sub"] = func(c *libCall) (Val, bool) {
		a, b := c.arg(0), c.arg(1)
		c.st.Assume(And(App(SBool, ">=", dcv(a), IntLit(0)), App(SBool, ">=", dcv(b), IntLit(0))))
		c.panicUnless(App(SBool, ">=", dcv(a), dcv(b)), "negative coin amount")
		return dcResult(c, App(SInt, "-", dcv(a), dcv(b))), true
	}
	libModels[decCoins+"MulDecTruncate"] = func(c *libCall) (Val, bool) {
		a, d := c.arg(0), c.arg(1)
		c.panicUnless(Not(dnil(d)), "nil Dec argument")
		c.st.Assume(App(SBool, ">=", dcv(a), IntLit(0)))
		return dcResult(c, App(SInt, "chop_trunc", App(SInt, "*", dcv(a), dval(d)))), true
	}
	libModels[decCoins+"MulDec"] = func(c *libCall) (Val, bool) {
		a, d := c.arg(0), c.arg(1)
		c.panicUnless(Not(dnil(d)), "nil Dec argument")
		c.st.Assume(App(SBool, ">=", dcv(a), IntLit(0)))
		return dcResult(c, App(SInt, "chop_round", App(SInt, "*", dcv(a), dval(d)))), true
	}
	libModels[decCoins+"IsZero"] = func(c *libCall) (Val, bool) {
		a := c.arg(0)
		c.st.Assume(App(SBool, ">=", dcv(a), IntLit(0)))
		return Eq(dcv(a), IntLit(0)), true
	}
	libModels[sdkPkg+"NewDecCoinsFromCoins"] = func(c *libCall) (Val, bool) {
		a := c.arg(0)
		c.st.Assume(App(SBool, ">=", App(SInt, "coinsv", a), IntLit(0)))
		return dcResult(c, App(SInt, "*", App(SInt, "coinsv", a), p18)), true
	}

	// ---- math.Int -------------------------------------------------------------------------
	intBin := func(op string, check bool) libModel {
		return func(c *libCall) (Val, bool) {
			a, b := c.arg(0), c.arg(1)
			c.panicUnless(Not(inil(a)), "nil Int receiver")
			c.panicUnless(Not(inil(b)), "nil Int argument")
			var r T
			switch op {
			case "quo":
				c.panicUnless(Not(Eq(ival(b), IntLit(0))), "Int division by zero")
				r = App(SInt, "tdiv", ival(a), ival(b))
			case "mod":
				c.panicUnless(Not(Eq(ival(b), IntLit(0))), "Int division by zero")
				r = App(SInt, "mod", ival(a), App(SInt, "iabs", ival(b)))
			default:
				r = App(SInt, op, ival(a), ival(b))
			}
			r = c.st.Name("i", r)
			if check {
				c.panicUnless(fits256(r), "Int overflow")
			}
			return intv(r), true
		}
	}
	libModels[mathInt+"Add"] = intBin("+", true)
	libModels[mathInt+"Sub"] = intBin("-", true)
	libModels[mathInt+"Mul"] = intBin("*", true)
	libModels[mathInt+"Quo"] = intBin("quo", false)
	libModels[mathInt+"Mod"] = intBin("mod", false)
	intRaw := func(op string) libModel {
		return func(c *libCall) (Val, bool) {
			a, b := c.arg(0), c.arg(1)
			c.panicUnless(Not(inil(a)), "nil Int receiver")
			var r T
			if op == "quo" {
				c.panicUnless(Not(Eq(b, IntLit(0))), "Int division by zero")
				r = App(SInt, "tdiv", ival(a), b)
			} else {
				r = App(SInt, op, ival(a), b)
			}
			r = c.st.Name("i", r)
			c.panicUnless(fits256(r), "Int overflow")
			return intv(r), true
		}
	}
	libModels[mathInt+"AddRaw"] = intRaw("+")
	libModels[mathInt+"SubRaw"] = intRaw("-")
	libModels[mathInt+"MulRaw"] = intRaw("*")
	libModels[mathInt+"QuoRaw"] = intRaw("quo")
	intCmp := func(op string) libModel {
		return func(c *libCall) (Val, bool) {
			a, b := c.arg(0), c.arg(1)
			c.panicUnless(Not(inil(a)), "nil Int receiver")
			c.panicUnless(Not(inil(b)), "nil Int argument")
			return App(SBool, op, ival(a), ival(b)), true
		}
	}
	libModels[mathInt+"LT"] = intCmp("<")
	libModels[mathInt+"LTE"] = intCmp("<=")
	libModels[mathInt+"GT"] = intCmp(">")
	libModels[mathInt+"GTE"] = intCmp(">=")
	libModels[mathInt+"Equal"] = intCmp("=")
	intPred := func(f func(v T) T) libModel {
		return func(c *libCall) (Val, bool) {
			a := c.arg(0)
			c.panicUnless(Not(inil(a)), "nil Int receiver")
			return f(ival(a)), true
		}
	}
	libModels[mathInt+"IsZero"] = intPred(func(v T) T { return Eq(v, IntLit(0)) })
	libModels[mathInt+"IsNegative"] = intPred(func(v T) T { return App(SBool, "<", v, IntLit(0)) })
	libModels[mathInt+"IsPositive"] = intPred(func(v T) T { return App(SBool, ">", v, IntLit(0)) })
	libModels[mathInt+"Neg"] = intPred(func(v T) T { return intv(App(SInt, "-", v)) })
	libModels[mathInt+"Abs"] = intPred(func(v T) T { return intv(App(SInt, "iabs", v)) })
	libModels[mathInt+"Sign"] = intPred(func(v T) T {
		return Ite(App(SBool, "<", v, IntLit(0)), IntLit(-1), Ite(Eq(v, IntLit(0)), IntLit(0), IntLit(1)))
	})
	libModels[mathInt+"IsNil"] = func(c *libCall) (Val, bool) { return inil(c.arg(0)), true }
	libModels[mathInt+"IsInt64"] = intPred(func(v T) T {
		lo, hi := rangeOf(64, true)
		return And(App(SBool, "<=", lo, v), App(SBool, "<=", v, hi))
	})
	libModels[mathInt+"IsUint64"] = intPred(func(v T) T {
		lo, hi := rangeOf(64, false)
		return And(App(SBool, "<=", lo, v), App(SBool, "<=", v, hi))
	})
	libModels[mathInt+"Int64"] = func(c *libCall) (Val, bool) {
		a := c.arg(0)
		c.panicUnless(Not(inil(a)), "nil Int receiver")
		lo, hi := rangeOf(64, true)
		c.panicUnless(And(App(SBool, "<=", lo, ival(a)), App(SBool, "<=", ival(a), hi)), "Int64() out of bound")
		return WithGo(ival(a), types.Typ[types.Int64]), true
	}
	libModels[mathInt+"Uint64"] = func(c *libCall) (Val, bool) {
		a := c.arg(0)
		c.panicUnless(Not(inil(a)), "nil Int receiver")
		lo, hi := rangeOf(64, false)
		c.panicUnless(And(App(SBool, "<=", lo, ival(a)), App(SBool, "<=", ival(a), hi)), "Uint64() out of bounds")
		return WithGo(ival(a), types.Typ[types.Uint64]), true
	}
	libModels[mathInt+"BigInt"] = func(c *libCall) (Val, bool) {
		a := c.arg(0)
		return WithGo(a, c.sig.Results().At(0).Type()), true // *big.Int shares the IntV representation (nil <-> isnil)
	}
	libModels[mathInt+"ToLegacyDec"] = func(c *libCall) (Val, bool) {
		a := c.arg(0)
		c.panicUnless(Not(inil(a)), "nil Int receiver")
		return decv(App(SInt, "*", ival(a), p18)), true
	}
	libModels[mathPkg+"NewInt"] = func(c *libCall) (Val, bool) { return intv(c.arg(0)), true }
	libModels[mathPkg+"NewIntFromUint64"] = func(c *libCall) (Val, bool) { return intv(c.arg(0)), true }
	libModels[mathPkg+"ZeroInt"] = func(c *libCall) (Val, bool) { return intv(IntLit(0)), true }
	libModels[mathPkg+"OneInt"] = func(c *libCall) (Val, bool) { return intv(IntLit(1)), true }
	libModels[mathPkg+"NewIntFromBigInt"] = func(c *libCall) (Val, bool) {
		a := c.arg(0) // *big.Int as IntV
		c.panicUnless(Or(inil(a), fits256(ival(a))), "NewIntFromBigInt overflow")
		return WithGo(a, c.sig.Results().At(0).Type()), true
	}
	libModels[mathPkg+"NewIntFromString"] = func(c *libCall) (Val, bool) {
		ok := c.st.Fresh("parseok", SBool)
		v := c.st.Fresh("parsed", SInt)
		c.st.Assume(fits256(v))
		return &TupleVal{Elems: []Val{Ite(ok, intv(v), T{S: "(mkIntV true 0)", Sort: SIntV}), ok}}, true
	}
	libModels[mathPkg+"MinInt"] = func(c *libCall) (Val, bool) {
		a, b := c.arg(0), c.arg(1)
		c.panicUnless(And(Not(inil(a)), Not(inil(b))), "nil Int argument")
		return intv(App(SInt, "imin", ival(a), ival(b))), true
	}
	libModels[mathPkg+"MaxInt"] = func(c *libCall) (Val, bool) {
		a, b := c.arg(0), c.arg(1)
		c.panicUnless(And(Not(inil(a)), Not(inil(b))), "nil Int argument")
		return intv(App(SInt, "imax", ival(a), ival(b))), true
	}

	// ---- math.LegacyDec -------------------------------------------------------------------
	decBin := func(fn string) libModel {
		return func(c *libCall) (Val, bool) {
			a, b := c.arg(0), c.arg(1)
			c.panicUnless(Not(dnil(a)), "nil Dec receiver")
			c.panicUnless(Not(dnil(b)), "nil Dec argument")
			var r T
			switch fn {
			case "+", "-":
				r = App(SInt, fn, dval(a), dval(b))
			case "dec_quo", "dec_quo_trunc", "dec_quo_roundup":
				c.panicUnless(Not(Eq(dval(b), IntLit(0))), "Dec division by zero")
				r = App(SInt, fn, dval(a), dval(b))
			default:
				r = App(SInt, fn, dval(a), dval(b))
			}
			r = c.st.Name("d", r)
			c.panicUnless(fits315(r), "Dec overflow")
			return decv(r), true
		}
	}
	libModels[mathDec+"Add"] = decBin("+")
	libModels[mathDec+"Sub"] = decBin("-")
	libModels[mathDec+"Mul"] = decBin("dec_mul")
	libModels[mathDec+"MulTruncate"] = decBin("dec_mul_trunc")
	libModels[mathDec+"Quo"] = decBin("dec_quo")
	libModels[mathDec+"QuoTruncate"] = decBin("dec_quo_trunc")
	libModels[mathDec+"QuoRoundUp"] = decBin("dec_quo_roundup")
	libModels[mathDec+"MulInt"] = func(c *libCall) (Val, bool) {
		a, b := c.arg(0), c.arg(1)
		c.panicUnless(Not(dnil(a)), "nil Dec receiver")
		c.panicUnless(Not(inil(b)), "nil Int argument")
		r := c.st.Name("d", App(SInt, "*", dval(a), ival(b)))
		c.panicUnless(fits315(r), "Dec overflow")
		return decv(r), true
	}
	libModels[mathDec+"MulInt64"] = func(c *libCall) (Val, bool) {
		a, b := c.arg(0), c.arg(1)
		c.panicUnless(Not(dnil(a)), "nil Dec receiver")
		r := c.st.Name("d", App(SInt, "*", dval(a), b))
		c.panicUnless(fits315(r), "Dec overflow")
		return decv(r), true
	}
	libModels[mathDec+"QuoInt"] = func(c *libCall) (Val, bool) {
		a, b := c.arg(0), c.arg(1)
		c.panicUnless(Not(dnil(a)), "nil Dec receiver")
		c.panicUnless(Not(inil(b)), "nil Int argument")
		c.panicUnless(Not(Eq(ival(b), IntLit(0))), "Dec division by zero")
		return decv(c.st.Name("d", App(SInt, "tdiv", dval(a), ival(b)))), true
	}
	libModels[mathDec+"QuoInt64"] = func(c *libCall) (Val, bool) {
		a, b := c.arg(0), c.arg(1)
		c.panicUnless(Not(dnil(a)), "nil Dec receiver")
		c.panicUnless(Not(Eq(b, IntLit(0))), "Dec division by zero")
		return decv(c.st.Name("d", App(SInt, "tdiv", dval(a), b))), true
	}
	decCmp := func(op string) libModel {
		return func(c *libCall) (Val, bool) {
			a, b := c.arg(0), c.arg(1)
			c.panicUnless(Not(dnil(a)), "nil Dec receiver")
			c.panicUnless(Not(dnil(b)), "nil Dec argument")
			return App(SBool, op, dval(a), dval(b)), true
		}
	}
	libModels[mathDec+"LT"] = decCmp("<")
	libModels[mathDec+"LTE"] = decCmp("<=")
	libModels[mathDec+"GT"] = decCmp(">")
	libModels[mathDec+"GTE"] = decCmp(">=")
	libModels[mathDec+"Equal"] = decCmp("=")
	decPred := func(f func(v T) T) libModel {
		return func(c *libCall) (Val, bool) {
			a := c.arg(0)
			c.panicUnless(Not(dnil(a)), "nil Dec receiver")
			return f(dval(a)), true
		}
	}
	libModels[mathDec+"IsZero"] = decPred(func(v T) T { return Eq(v, IntLit(0)) })
	libModels[mathDec+"IsNegative"] = decPred(func(v T) T { return App(SBool, "<", v, IntLit(0)) })
	libModels[mathDec+"IsPositive"] = decPred(func(v T) T { return App(SBool, ">", v, IntLit(0)) })
	libModels[mathDec+"Neg"] = decPred(func(v T) T { return decv(App(SInt, "-", v)) })
	libModels[mathDec+"Abs"] = decPred(func(v T) T { return decv(App(SInt, "iabs", v)) })
	libModels[mathDec+"IsNil"] = func(c *libCall) (Val, bool) { return dnil(c.arg(0)), true }
	libModels[mathDec+"TruncateInt"] = decPred(func(v T) T { return intv(App(SInt, "chop_trunc", v)) })
	libModels[mathDec+"RoundInt"] = decPred(func(v T) T { return intv(App(SInt, "chop_round", v)) })
	libModels[mathDec+"TruncateDec"] = decPred(func(v T) T { return decv(App(SInt, "*", App(SInt, "chop_trunc", v), p18)) })
	libModels[mathDec+"IsInteger"] = decPred(func(v T) T { return Eq(App(SInt, "tmod", v, p18), IntLit(0)) })
	libModels[mathDec+"TruncateInt64"] = func(c *libCall) (Val, bool) {
		a := c.arg(0)
		c.panicUnless(Not(dnil(a)), "nil Dec receiver")
		r := c.st.Name("ti", App(SInt, "chop_trunc", dval(a)))
		lo, hi := rangeOf(64, true)
		c.panicUnless(And(App(SBool, "<=", lo, r), App(SBool, "<=", r, hi)), "Int64() out of bound")
		return WithGo(r, types.Typ[types.Int64]), true
	}
	libModels[mathDec+"RoundInt64"] = func(c *libCall) (Val, bool) {
		a := c.arg(0)
		c.panicUnless(Not(dnil(a)), "nil Dec receiver")
		r := c.st.Name("ri", App(SInt, "chop_round", dval(a)))
		lo, hi := rangeOf(64, true)
		c.panicUnless(And(App(SBool, "<=", lo, r), App(SBool, "<=", r, hi)), "Int64() out of bound")
		return WithGo(r, types.Typ[types.Int64]), true
	}
	libModels[mathDec+"BigInt"] = func(c *libCall) (Val, bool) {
		a := c.arg(0)
		return WithGo(App(SIntV, "mkIntV", dnil(a), dval(a)), c.sig.Results().At(0).Type()), true
	}
	libModels[mathPkg+"LegacyNewDec"] = func(c *libCall) (Val, bool) { return decv(App(SInt, "*", c.arg(0), p18)), true }
	libModels[mathPkg+"LegacyZeroDec"] = func(c *libCall) (Val, bool) { return decv(IntLit(0)), true }
	libModels[mathPkg+"LegacyOneDec"] = func(c *libCall) (Val, bool) { return decv(p18), true }
	libModels[mathPkg+"LegacySmallestDec"] = func(c *libCall) (Val, bool) { return decv(IntLit(1)), true }
	libModels[mathPkg+"LegacyNewDecFromInt"] = func(c *libCall) (Val, bool) {
		a := c.arg(0)
		c.panicUnless(Not(inil(a)), "nil Int argument")
		return decv(c.st.Name("d", App(SInt, "*", ival(a), p18))), true
	}
	libModels[mathPkg+"LegacyNewDecFromBigInt"] = func(c *libCall) (Val, bool) {
		a := c.arg(0)
		c.panicUnless(Not(inil(a)), "nil *big.Int argument")
		return decv(c.st.Name("d", App(SInt, "*", ival(a), p18))), true
	}
	libModels[mathPkg+"LegacyNewDecWithPrec"] = func(c *libCall) (Val, bool) {
		i, prec := c.arg(0), c.arg(1)
		c.panicUnless(And(App(SBool, ">=", prec, IntLit(0)), App(SBool, "<=", prec, IntLit(18))), "precision out of range")
		return decv(c.st.Name("d", App(SInt, "*", i, App(SInt, "pow10", App(SInt, "-", IntLit(18), prec))))), true
	}
	libModels[mathPkg+"LegacyNewDecFromIntWithPrec"] = func(c *libCall) (Val, bool) {
		i, prec := c.arg(0), c.arg(1)
		c.panicUnless(Not(inil(i)), "nil Int argument")
		c.panicUnless(And(App(SBool, ">=", prec, IntLit(0)), App(SBool, "<=", prec, IntLit(18))), "precision out of range")
		return decv(c.st.Name("d", App(SInt, "*", ival(i), App(SInt, "pow10", App(SInt, "-", IntLit(18), prec))))), true
	}
	libModels[mathPkg+"LegacyNewDecFromBigIntWithPrec"] = libModels[mathPkg+"LegacyNewDecFromIntWithPrec"]
	libModels[mathPkg+"LegacyMinDec"] = func(c *libCall) (Val, bool) {
		a, b := c.arg(0), c.arg(1)
		c.panicUnless(And(Not(dnil(a)), Not(dnil(b))), "nil Dec argument")
		return decv(App(SInt, "imin", dval(a), dval(b))), true
	}
	libModels[mathPkg+"LegacyMaxDec"] = func(c *libCall) (Val, bool) {
		a, b := c.arg(0), c.arg(1)
		c.panicUnless(And(Not(dnil(a)), Not(dnil(b))), "nil Dec argument")
		return decv(App(SInt, "imax", dval(a), dval(b))), true
	}
	// sdk aliases (package-level func variables in cosmos-sdk/types/math.go)
	for alias, target := range map[string]string{
		"NewInt": "NewInt", "ZeroInt": "ZeroInt", "OneInt": "OneInt", "NewIntFromUint64": "NewIntFromUint64",
		"NewIntFromBigInt": "NewIntFromBigInt", "NewIntFromString": "NewIntFromString", "MinInt": "MinInt", "MaxInt": "MaxInt",
		"NewDec": "LegacyNewDec", "ZeroDec": "LegacyZeroDec", "OneDec": "LegacyOneDec", "SmallestDec": "LegacySmallestDec",
		"NewDecFromInt": "LegacyNewDecFromInt", "NewDecFromBigInt": "LegacyNewDecFromBigInt", "NewDecWithPrec": "LegacyNewDecWithPrec",
		"NewDecFromIntWithPrec": "LegacyNewDecFromIntWithPrec", "NewDecFromBigIntWithPrec": "LegacyNewDecFromBigIntWithPrec",
		"MinDec": "LegacyMinDec", "MaxDec": "LegacyMaxDec",
	} {
		libModels[sdkPkg+alias] = libModels[mathPkg+target]
	}

	// ---- errors ---------------------------------------------------------------------------
	wrap := func(c *libCall) (Val, bool) {
		e := c.arg(0)
		r := c.st.Fresh("wrapped", SIface)
		c.st.Assume(Not(Eq(r, T{S: "inil", Sort: SIface})))
		return Ite(Eq(e, T{S: "inil", Sort: SIface}), T{S: "inil", Sort: SIface}, r), true
	}
	libModels["cosmossdk.io/errors.Wrap"] = wrap
	libModels["cosmossdk.io/errors.Wrapf"] = wrap
	libModels["github.com/pkg/errors.Wrap"] = wrap
	libModels["github.com/pkg/errors.Wrapf"] = wrap
	nonNilErr := func(c *libCall) (Val, bool) {
		r := c.st.Fresh("err", SIface)
		c.st.Assume(Not(Eq(r, T{S: "inil", Sort: SIface})))
		return r, true
	}
	for _, n := range []string{"errors.New", "fmt.Errorf", "(*cosmossdk.io/errors.Error).Wrap", "(*cosmossdk.io/errors.Error).Wrapf",
		"cosmossdk.io/errors.Register", "github.com/pkg/errors.New", "github.com/pkg/errors.Errorf", "(cosmossdk.io/errors.Error).Wrap", "(cosmossdk.io/errors.Error).Wrapf"} {
		libModels[n] = nonNilErr
	}
	libModels["errors.Is"] = func(c *libCall) (Val, bool) {
		e, tgt := c.arg(0), c.arg(1)
		r := c.st.Fresh("errIs", SBool)
		c.st.Assume(Implies(Eq(e, tgt), r))
		c.st.Assume(Implies(And(Eq(e, T{S: "inil", Sort: SIface}), Not(Eq(tgt, T{S: "inil", Sort: SIface}))), Not(r)))
		return r, true
	}

	// ---- sdk.Context ----------------------------------------------------------------------
	libModels[sdkCtx+"BlockHeight"] = func(c *libCall) (Val, bool) {
		return WithGo(App(SInt, "ctx_height", c.arg(0)), types.Typ[types.Int64]), true
	}
	libModels[sdkCtx+"BlockTime"] = func(c *libCall) (Val, bool) {
		return WithGo(App(SInt, "ctx_time", c.arg(0)), c.sig.Results().At(0).Type()), true
	}
	libModels[sdkCtx+"ChainID"] = func(c *libCall) (Val, bool) {
		return WithGo(App(SBytes, "ctx_chainid", c.arg(0)), types.Typ[types.String]), true
	}
	libModels[sdkCtx+"KVStore"] = func(c *libCall) (Val, bool) {
		ctx := c.arg(0)
		return &ViewVal{Cell: App(SInt, "ctx_cell", ctx), Store: c.fr.storeIDForCall()}, true
	}
	libModels[sdkCtx+"TransientStore"] = func(c *libCall) (Val, bool) {
		ctx := c.arg(0)
		return &ViewVal{Cell: App(SInt, "ctx_cell", ctx), Store: App(SInt, "+", c.fr.storeIDForCall(), IntLit(500000))}, true
	}
	libModels[sdkCtx+"CacheContext"] = func(c *libCall) (Val, bool) {
		ctx := c.arg(0)
		c.fr.ex.fresh++
		child := mk(SInt, "(+ CELL0 %d)", c.fr.ex.fresh)
		parent := App(SInt, "ctx_cell", ctx)
		c.st.kv = c.st.Name("kv", Store(c.st.kv, child, Select(c.st.kv, parent, SState)))
		nctx := WithGo(App(SCtx, "mkCtx", child, App(SInt, "ctx_height", ctx), App(SInt, "ctx_time", ctx), App(SBytes, "ctx_chainid", ctx), App(SInt, "ctx_misc", ctx)), c.sig.Results().At(0).Type())
		return &TupleVal{Elems: []Val{c.st.Name("cctx", nctx), &WriteCacheVal{Parent: parent, Child: child}}}, true
	}
	ctxWith := func(field string) libModel {
		return func(c *libCall) (Val, bool) {
			ctx := c.arg(0)
			parts := map[string]T{"cell": App(SInt, "ctx_cell", ctx), "height": App(SInt, "ctx_height", ctx), "time": App(SInt, "ctx_time", ctx),
				"chainid": App(SBytes, "ctx_chainid", ctx), "misc": App(SInt, "ctx_misc", ctx)}
			if field == "misc" {
				parts["misc"] = c.st.Fresh("ctxmisc", SInt)
			} else if field != "" {
				parts[field] = c.arg(1)
			}
			return WithGo(App(SCtx, "mkCtx", parts["cell"], parts["height"], parts["time"], parts["chainid"], parts["misc"]), c.sig.Results().At(0).Type()), true
		}
	}
	libModels[sdkCtx+"WithBlockHeight"] = ctxWith("height")
	libModels[sdkCtx+"WithBlockTime"] = ctxWith("time")
	libModels[sdkCtx+"WithChainID"] = ctxWith("chainid")
	for _, n := range []string{"WithEventManager", "WithGasMeter", "WithBlockGasMeter", "WithLogger", "WithMinGasPrices", "WithPriority", "WithTxBytes",
		"WithIsCheckTx", "WithIsReCheckTx", "WithValue", "WithContext", "WithKVGasConfig", "WithTransientKVGasConfig", "WithBlockHeader", "WithConsensusParams", "WithVoteInfos", "WithHeaderHash", "WithProposer"} {
		libModels[sdkCtx+n] = ctxWith("misc")
	}
	for _, n := range []string{"Logger", "EventManager", "GasMeter", "BlockGasMeter", "IsCheckTx", "IsReCheckTx", "MinGasPrices", "TxBytes", "BlockHeader",
		"ConsensusParams", "Context", "Value", "Priority", "VoteInfos", "HeaderHash", "KVGasConfig", "TransientKVGasConfig", "IsZero"} {
		nn := n
		libModels[sdkCtx+nn] = func(c *libCall) (Val, bool) { return c.fr.freshResults(c.st, c.sig, nn), true }
	}
	libModels[sdkPkg+"UnwrapSDKContext"] = func(c *libCall) (Val, bool) {
		// the handler's context: a deterministic function of the wrapped context value, living in an incoming cell
		g := c.arg(0)
		r := WithGo(c.st.Name("uctx", App(SCtx, "unwrap_ctx", g)), c.sig.Results().At(0).Type())
		c.st.TypeFacts(r, r.Go, 0)
		c.st.Assume(And(App(SBool, ">=", App(SInt, "ctx_cell", r), IntLit(0)), App(SBool, "<", App(SInt, "ctx_cell", r), T{S: "CELL0", Sort: SInt})))
		return r, true
	}
	libModels[sdkPkg+"WrapSDKContext"] = func(c *libCall) (Val, bool) { return c.fr.freshResults(c.st, c.sig, "wrapctx"), true }

	// ---- store helpers --------------------------------------------------------------------
	libModels["github.com/cosmos/cosmos-sdk/store/prefix.NewStore"] = func(c *libCall) (Val, bool) {
		v, ok := c.args[0].(*ViewVal)
		if iv, isI := c.args[0].(*IfaceVal); isI {
			v, ok = iv.Payload.(*ViewVal)
		}
		if !ok {
			return nil, false
		}
		p := c.fr.ex.reify(c.st, c.args[1], c.sig.Params().At(1).Type())
		nv := *v
		if v.Prefix.IsZero() {
			nv.Prefix = p
		} else {
			nv.Prefix = Cat(v.Prefix, p)
		}
		return &nv, true
	}
	for _, m := range []string{"Get", "Has", "Set", "Delete"} {
		mm := m
		libModels["(github.com/cosmos/cosmos-sdk/store/prefix.Store)."+mm] = func(c *libCall) (Val, bool) {
			v, ok := c.args[0].(*ViewVal)
			if !ok {
				return nil, false
			}
			return c.fr.viewMethod(c.st, v, mm, c.args[1:], c.sig), true
		}
	}
	kvIter := func(c *libCall) (Val, bool) {
		v, ok := c.args[0].(*ViewVal)
		if iv, isI := c.args[0].(*IfaceVal); isI {
			v, ok = iv.Payload.(*ViewVal)
		}
		if !ok {
			return nil, false
		}
		p := c.fr.ex.reify(c.st, c.args[1], c.sig.Params().At(1).Type())
		return c.fr.newIterator(c.st, v, p), true
	}
	libModels[sdkPkg+"KVStorePrefixIterator"] = kvIter
	libModels[sdkPkg+"KVStoreReversePrefixIterator"] = kvIter

	// ---- byte/uint helpers ------------------------------------------------------------------
	libModels[sdkPkg+"Uint64ToBigEndian"] = func(c *libCall) (Val, bool) {
		return WithGo(App(SBytes, "kf", IntLit(-1), App(SBytes, "bint", c.arg(0)), bnilT, bnilT, bnilT), c.sig.Results().At(0).Type()), true
	}
	libModels[sdkPkg+"BigEndianToUint64"] = func(c *libCall) (Val, bool) {
		// inverse of Uint64ToBigEndian on its image; 0 on anything else (counters are only ever written by
		// Uint64ToBigEndian: assumption)
		b := c.arg(0)
		r := WithGo(App(SInt, "be2u64", b), c.sig.Results().At(0).Type())
		c.fr.ex.Assumed["sdk.BigEndianToUint64 modelled as the inverse of Uint64ToBigEndian (0 on other byte strings)"] = true
		c.st.TypeFacts(r, r.Go, 0)
		return r, true
	}

	// AppendMany(parts...) of the repository's key helpers: the concatenation of a statically known number of parts
	appendMany := func(c *libCall) (Val, bool) {
		sl := c.arg(0)
		n, okn := constSliceLen(sl)
		if !okn || n < 1 || n > 6 {
			return nil, false
		}
		elemT := c.sig.Params().At(0).Type().Underlying().(*types.Slice).Elem()
		part := func(i int) T {
			e, ok := c.st.resolvedSliceElem(sl, i, elemT)
			if !ok {
				e = c.st.SliceElem(sl, IntLit(int64(i)), elemT)
			}
			e.Sort = SBytes
			return e
		}
		r := part(n - 1)
		for i := n - 2; i >= 0; i-- {
			r = Cat(part(i), r)
		}
		return WithGo(c.st.Name("appended", r), c.sig.Results().At(0).Type()), true
	}
	// ChainIDWithLenKey(chainID) = big-endian length of the chain id followed by the chain id
	libModels[RepoModule+"/x/operator/types.ChainIDWithLenKey"] = func(c *libCall) (Val, bool) {
		ch := c.arg(0)
		r := Cat(App(SBytes, "kf", IntLit(-1), App(SBytes, "bint", App(SInt, "blen", ch)), bnilT, bnilT, bnilT), ch)
		return WithGo(r, c.sig.Results().At(0).Type()), true
	}
	libModels[RepoModule+"/x/operator/types.AppendMany"] = appendMany
	libModels[RepoModule+"/x/appchain/coordinator/types.AppendMany"] = appendMany

	libModels["strings.Join"] = func(c *libCall) (Val, bool) {
		sl := c.arg(0)
		sepv, ok := c.args[1].(T)
		if !ok {
			return nil, false
		}
		sep, ok := c.fr.ex.Lits.Lookup(sepv)
		n, okn := constSliceLen(sl)
		if !ok || !okn || n < 1 || n > 4 {
			return nil, false
		}
		elemT := c.sig.Params().At(0).Type().Underlying().(*types.Slice).Elem()
		var parts []T
		for i := 0; i < n; i++ {
			parts = append(parts, c.st.SliceElem(sl, IntLit(int64(i)), elemT))
		}
		r := c.fr.ex.JoinTerm(parts, sep)
		r = c.st.Name("joined", r)
		c.st.Assume(Not(Eq(r, bnilT)))
		return WithGo(r, types.Typ[types.String]), true
	}
	for _, an := range []string{"AccAddress", "ValAddress", "ConsAddress"} {
		name := an
		libModels["("+sdkPkg+name+").String"] = func(c *libCall) (Val, bool) {
			b := c.arg(0)
			tid := IntLit(int64(c.fr.ex.TypeID(c.sig.Recv().Type())))
			r := c.st.Name("addrstr", App(SBytes, "addr_string", tid, b))
			c.st.Assume(Not(Eq(r, bnilT)))
			if name == "AccAddress" {
				// bech32 round trip: the rendering of a non-empty account address parses back to it
				c.st.Assume(Implies(App(SBool, ">", App(SInt, "blen", b), IntLit(0)),
					And(Not(App(SBool, "bech32err", r)), Eq(App(SBytes, "bech32addr", r), b))))
				c.fr.ex.Assumed["bech32: AccAddressFromBech32(a.String()) == a for a non-empty AccAddress"] = true
			}
			return WithGo(r, types.Typ[types.String]), true
		}
		libModels["("+sdkPkg+name+").Bytes"] = func(c *libCall) (Val, bool) {
			return WithGo(c.arg(0), c.sig.Results().At(0).Type()), true
		}
		libModels["("+sdkPkg+name+").Empty"] = func(c *libCall) (Val, bool) {
			return Eq(App(SInt, "blen", c.arg(0)), IntLit(0)), true
		}
	}

	// common.Hash rendering and encoding/hex decoding (string algebra: "0x" ++ hexdigits(h))
	for _, hn := range []string{"String", "Hex"} {
		libModels["(github.com/ethereum/go-ethereum/common.Hash)."+hn] = func(c *libCall) (Val, bool) {
			h := c.arg(0)
			c.st.Assume(Eq(App(SInt, "blen", h), IntLit(32)))
			r := App(SBytes, "hashstr", h)
			c.fr.ex.Lits.ID("0x")
			return WithGo(r, types.Typ[types.String]), true
		}
	}
	libModels["encoding/hex.DecodeString"] = func(c *libCall) (Val, bool) {
		// succeeds exactly on strings that are hex digits (no "0x" prefix); yields the encoded bytes
		s0 := c.arg(0)
		ok := App(SBool, "is_hexdigits", s0)
		res := c.st.FreshOf("hexdec", c.sig.Results().At(0).Type())
		errv := c.st.FreshOf("hexdec_err", c.sig.Results().At(1).Type())
		c.st.Assume(Eq(ok, Eq(errv, T{S: "inil", Sort: SIface})))
		c.st.Assume(Implies(ok, And(Eq(res, App(SBytes, "kf_1", s0)), Not(Eq(res, bnilT)))))
		c.fr.ex.Assumed["string algebra: hex.DecodeString succeeds exactly on pure hex-digit strings (no 0x prefix)"] = true
		return &TupleVal{Elems: []Val{res, errv}}, true
	}
	libModels["strings.TrimPrefix"] = func(c *libCall) (Val, bool) {
		s0, p := c.arg(0), c.arg(1)
		has := And(mk(SBool, "((_ is cat) %s)", s0.S), Eq(App(SBytes, "cat_a", s0), p))
		r := Ite(has, App(SBytes, "cat_b", s0), s0)
		c.fr.ex.Assumed["string algebra: strings.TrimPrefix strips a prefix only from strings built as prefix ++ rest"] = true
		return WithGo(c.st.Name("trimmed", r), types.Typ[types.String]), true
	}

	// hexutil encoders as (injective) key-family constructors
	libModels["github.com/ethereum/go-ethereum/common/hexutil.EncodeUint64"] = func(c *libCall) (Val, bool) {
		r := App(SBytes, "hexu64", c.arg(0))
		c.fr.ex.Assumed["key algebra: hexutil.EncodeUint64 is injective (constructor)"] = true
		return WithGo(r, types.Typ[types.String]), true
	}
	libModels["strconv.FormatUint"] = func(c *libCall) (Val, bool) {
		r := App(SBytes, "fmtu64", c.arg(0), c.arg(1))
		c.fr.ex.Assumed["key algebra: strconv.FormatUint is injective in (value, base) (constructor)"] = true
		return WithGo(r, types.Typ[types.String]), true
	}
	libModels["github.com/ethereum/go-ethereum/common/hexutil.Encode"] = func(c *libCall) (Val, bool) {
		r := App(SBytes, "hexenc", c.arg(0))
		c.fr.ex.Assumed["key algebra: hexutil.Encode is injective (constructor)"] = true
		return WithGo(r, types.Typ[types.String]), true
	}

	libModels[sdkPkg+"MustAccAddressFromBech32"] = func(c *libCall) (Val, bool) {
		sv := c.arg(0)
		c.panicUnless(Not(App(SBool, "bech32err", sv)), "MustAccAddressFromBech32 on an invalid address")
		return WithGo(App(SBytes, "bech32addr", sv), c.sig.Results().At(0).Type()), true
	}

	// slices.Contains on []string: an uninterpreted predicate of (backing array, offset, length, needle)
	libModels["slices.Contains[[]string string]"] = func(c *libCall) (Val, bool) {
		sl, x := c.arg(0), c.arg(1)
		return c.fr.ex.sliceContains(c.st, sl, x), true
	}

	// ---- math/big.Int (value semantics; mutation through aliases of the receiver is not modelled) ----
	bigPkg := "(*math/big.Int)."
	bigSet := func(c *libCall, r T) Val {
		// z.Op(x, y) stores into z when z is a local new(big.Int) and returns the value
		if pv, ok := c.args[0].(*PtrVal); ok && pv.Kind == PLocal && len(pv.Path) == 0 {
			c.st.cells[pv.Cell] = WithGo(r, types.NewPointer(pv.Root))
		}
		c.fr.ex.Assumed["math/big.Int modelled with value semantics (aliasing of receivers not modelled)"] = true
		return WithGo(r, c.sig.Results().At(0).Type())
	}
	bigBin := func(op string) libModel {
		return func(c *libCall) (Val, bool) {
			x, y := c.arg(1), c.arg(2)
			c.panicUnless(And(Not(inil(x)), Not(inil(y))), "nil *big.Int operand")
			var r T
			switch op {
			case "quo":
				c.panicUnless(Not(Eq(ival(y), IntLit(0))), "big.Int division by zero")
				r = App(SInt, "tdiv", ival(x), ival(y))
			case "div":
				c.panicUnless(Not(Eq(ival(y), IntLit(0))), "big.Int division by zero")
				r = App(SInt, "div", ival(x), ival(y))
			default:
				r = App(SInt, op, ival(x), ival(y))
			}
			return bigSet(c, intv(c.st.Name("b", r))), true
		}
	}
	libModels[bigPkg+"Mul"] = bigBin("*")
	libModels[bigPkg+"Add"] = bigBin("+")
	libModels[bigPkg+"Sub"] = bigBin("-")
	libModels[bigPkg+"Quo"] = bigBin("quo")
	libModels[bigPkg+"Div"] = bigBin("div")
	libModels[bigPkg+"Set"] = func(c *libCall) (Val, bool) { return bigSet(c, intv(ival(c.arg(1)))), true }
	libModels[bigPkg+"SetInt64"] = func(c *libCall) (Val, bool) { return bigSet(c, intv(c.arg(1))), true }
	libModels[bigPkg+"SetUint64"] = func(c *libCall) (Val, bool) { return bigSet(c, intv(c.arg(1))), true }
	libModels[bigPkg+"Neg"] = func(c *libCall) (Val, bool) { return bigSet(c, intv(App(SInt, "-", ival(c.arg(1))))), true }
	libModels[bigPkg+"Abs"] = func(c *libCall) (Val, bool) { return bigSet(c, intv(App(SInt, "iabs", ival(c.arg(1))))), true }
	libModels[bigPkg+"Cmp"] = func(c *libCall) (Val, bool) {
		x, y := c.arg(0), c.arg(1)
		c.panicUnless(And(Not(inil(x)), Not(inil(y))), "nil *big.Int operand")
		return WithGo(Ite(App(SBool, "<", ival(x), ival(y)), IntLit(-1), Ite(Eq(ival(x), ival(y)), IntLit(0), IntLit(1))), types.Typ[types.Int]), true
	}
	libModels[bigPkg+"Sign"] = func(c *libCall) (Val, bool) {
		x := c.arg(0)
		c.panicUnless(Not(inil(x)), "nil *big.Int receiver")
		return WithGo(Ite(App(SBool, "<", ival(x), IntLit(0)), IntLit(-1), Ite(Eq(ival(x), IntLit(0)), IntLit(0), IntLit(1))), types.Typ[types.Int]), true
	}
	libModels[bigPkg+"Int64"] = func(c *libCall) (Val, bool) {
		return c.fr.wrap(ival(c.arg(0)), types.Typ[types.Int64]), true
	}
	libModels[bigPkg+"Uint64"] = func(c *libCall) (Val, bool) {
		return c.fr.wrap(ival(c.arg(0)), types.Typ[types.Uint64]), true
	}
	libModels[bigPkg+"IsInt64"] = func(c *libCall) (Val, bool) {
		lo, hi := rangeOf(64, true)
		return And(App(SBool, "<=", lo, ival(c.arg(0))), App(SBool, "<=", ival(c.arg(0)), hi)), true
	}
	libModels["math/big.NewInt"] = func(c *libCall) (Val, bool) {
		return WithGo(intv(c.arg(0)), c.sig.Results().At(0).Type()), true
	}

	// ---- encoding/binary big endian ---------------------------------------------------------
	libModels["(encoding/binary.bigEndian).PutUint64"] = func(c *libCall) (Val, bool) {
		// PutUint64(b, v) overwrites the 8-byte buffer b in place: the SSA value of b is rebound to the encoded
		// bytes (sound when b is a fresh make([]byte, 8) that is only used afterwards, which is checked here)
		if len(c.ssaArgs) < 3 {
			return nil, false
		}
		switch b := c.ssaArgs[1].(type) {
		case *ssa.MakeSlice:
		case *ssa.Slice: // make([]byte, 8) with a constant length is "new [8]byte; slice"
			if _, ok := b.X.(*ssa.Alloc); !ok {
				return nil, false
			}
		default:
			return nil, false
		}
		v := c.arg(2)
		c.st.env[c.ssaArgs[1]] = WithGo(App(SBytes, "kf", IntLit(-1), App(SBytes, "bint", v), bnilT, bnilT, bnilT), c.ssaArgs[1].Type())
		return T{S: "unit", Sort: SUnit}, true
	}
	libModels["(encoding/binary.bigEndian).Uint64"] = func(c *libCall) (Val, bool) {
		b := c.arg(1)
		r := c.st.FreshOf("be2u", types.Typ[types.Uint64])
		c.st.Assume(Implies(And(App(SBool, "(_ is kf)", b), Eq(App(SInt, "kf_id", b), IntLit(-1)), App(SBool, "(_ is bint)", App(SBytes, "kf_1", b))), Eq(r, App(SInt, "bint_v", App(SBytes, "kf_1", b)))))
		c.st.Assume(Eq(r, App(SInt, "wrapu", App(SInt, "be2u64", b), T{S: "18446744073709551616", Sort: SInt})))
		return r, true
	}

	// ---- sdk.Coin / sdk.Coins ------------------------------------------------------------------
	libModels[sdkPkg+"NewCoin"] = func(c *libCall) (Val, bool) {
		ct := c.sig.Results().At(0).Type()
		si := c.fr.ex.Sorts.StructInfoOf(ct)
		if si == nil || len(si.Fields) != 2 {
			return nil, false
		}
		d, a := c.arg(0), c.arg(1)
		c.panicUnless(And(Not(inil(a)), App(SBool, ">=", ival(a), IntLit(0))), "NewCoin with a nil or negative amount")
		return WithGo(App(si.Sort, si.Ctor, d, a), ct), true
	}
	libModels[sdkPkg+"NewCoins"] = func(c *libCall) (Val, bool) {
		// NewCoins(coin): the one-element set, or the empty set when the amount is zero (zero coins are dropped)
		sl := c.arg(0)
		n, ok := constSliceLen(sl)
		if !ok || n != 1 {
			return nil, false
		}
		rt := c.sig.Results().At(0).Type()
		elem := rt.Underlying().(*types.Slice).Elem()
		si := c.fr.ex.Sorts.StructInfoOf(elem)
		if si == nil {
			return nil, false
		}
		coin := c.st.SliceElem(sl, IntLit(0), elem)
		amt := c.fr.ex.Sorts.Field(coin, si, 1)
		base := c.st.NewRef()
		name, h, es := c.st.sliceHeap(elem)
		arr := Store(Select(h, App(SInt, "sbase", sl), "(Array Int "+es+")"), IntLit(0), coin)
		c.st.heaps[name] = c.st.Name(name, Store(h, base, arr))
		ln := Ite(Eq(ival(amt), IntLit(0)), IntLit(0), IntLit(1))
		return WithGo(App(SSlice, "mkSlice", base, IntLit(0), ln, IntLit(1)), rt), true
	}
	libModels[mathPkg+"NewIntWithDecimal"] = func(c *libCall) (Val, bool) {
		n, d := c.arg(0), c.arg(1)
		r := c.st.Name("iwd", App(SInt, "*", n, App(SInt, "pow10", d)))
		c.panicUnless(fits256(r), "NewIntWithDecimal overflow")
		return intv(r), true
	}
	libModels["bytes.Compare"] = func(c *libCall) (Val, bool) {
		a, b := c.arg(0), c.arg(1)
		lt := App(SBool, "bytes_lt", a, b)
		return WithGo(Ite(Eq(a, b), IntLit(0), Ite(lt, IntLit(-1), IntLit(1))), types.Typ[types.Int]), true
	}
	libModels["bytes.Equal"] = func(c *libCall) (Val, bool) {
		a, b := c.arg(0), c.arg(1)
		// nil and empty slices are equal for bytes.Equal
		return Or(Eq(a, b), And(Eq(App(SInt, "blen", a), IntLit(0)), Eq(App(SInt, "blen", b), IntLit(0)))), true
	}
	libModels["strings.Compare"] = func(c *libCall) (Val, bool) {
		a, b := c.arg(0), c.arg(1)
		lt := App(SBool, "bytes_lt", a, b)
		return WithGo(Ite(Eq(a, b), IntLit(0), Ite(lt, IntLit(-1), IntLit(1))), types.Typ[types.Int]), true
	}

	// ---- time -----------------------------------------------------------------------------
	tm := "(time.Time)."
	libModels[tm+"Before"] = func(c *libCall) (Val, bool) { return App(SBool, "<", c.arg(0), c.arg(1)), true }
	libModels[tm+"After"] = func(c *libCall) (Val, bool) { return App(SBool, ">", c.arg(0), c.arg(1)), true }
	libModels[tm+"Equal"] = func(c *libCall) (Val, bool) { return Eq(c.arg(0), c.arg(1)), true }
	libModels[tm+"Add"] = func(c *libCall) (Val, bool) {
		return WithGo(App(SInt, "+", c.arg(0), c.arg(1)), c.sig.Results().At(0).Type()), true
	}
	libModels[tm+"Sub"] = func(c *libCall) (Val, bool) {
		return WithGo(App(SInt, "-", c.arg(0), c.arg(1)), c.sig.Results().At(0).Type()), true
	}
	libModels[tm+"Unix"] = func(c *libCall) (Val, bool) {
		return WithGo(App(SInt, "div", c.arg(0), IntLit(1000000000)), types.Typ[types.Int64]), true
	}
	libModels[tm+"UnixNano"] = func(c *libCall) (Val, bool) { return WithGo(c.arg(0), types.Typ[types.Int64]), true }
	libModels[tm+"IsZero"] = func(c *libCall) (Val, bool) { return Eq(c.arg(0), T{S: "TIME_ZERO", Sort: SInt}), true }
	libModels[tm+"UTC"] = func(c *libCall) (Val, bool) { return c.arg(0), true }
}

// storeIDForCall derives the module store id from the package of the function that performs the
// KVStore call (assumption: each keeper only holds its own module's store key, as wired in app.go).
func (fr *frame) storeIDForCall() T {
	p := fr.fn.Pkg
	if p == nil && fr.fn.Parent() != nil {
		p = fr.fn.Parent().Pkg
	}
	path := ""
	if p != nil {
		path = p.Pkg.Path()
	}
	mod := ModuleOfPkg(path)
	fr.ex.Assumed["store wiring: functions of package "+ShortName(path)+" access only the '"+mod+"' store"] = true
	return fr.ex.StoreID(mod)
}

// ModuleOfPkg maps x/<mod>/keeper (and sub-packages) to <mod>.
func ModuleOfPkg(path string) string {
	s := strings.TrimPrefix(path, RepoModule+"/")
	parts := strings.Split(s, "/")
	if len(parts) >= 2 && parts[0] == "x" {
		return parts[1]
	}
	return s
}

func (ex *Exec) sliceContains(st *PState, sl T, x T) T {
	_, h, _ := st.sliceHeap(types.Typ[types.String])
	arr := Select(h, App(SInt, "sbase", sl), "(Array Int Bytes)")
	ex.Assumed["slices.Contains modelled as an uninterpreted membership predicate"] = true
	return App(SBool, "slice_contains", arr, App(SInt, "soff", sl), App(SInt, "slen", sl), x)
}
