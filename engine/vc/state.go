package vc

import (
	"fmt"
	"go/types"
	"hash/fnv"
	"os"
	"sort"
	"strings"

	"golang.org/x/tools/go/ssa"
)

// Val is a symbolic value: either an SMT term (T) or one of the executor-level values below.
type Val interface{}

const (
	PLocal = iota
	PHeap
	PGlobal
)

// PathSel is one selection step inside a root object.
type PathSel struct {
	Field int        // >=0: struct field index
	Index *T         // non-nil: array index
	Type  types.Type // type after this selection
}

// PtrVal is a pointer: to a local cell, to a heap object of type Root, or to a global.
type PtrVal struct {
	Kind   int
	Cell   int
	Ref    T
	Root   types.Type
	Path   []PathSel
	Global *ssa.Global
	SIdx   *T // PSliceElem: element index (Ref holds the slice term)
}

func (p *PtrVal) ElemType() types.Type {
	if len(p.Path) > 0 {
		return p.Path[len(p.Path)-1].Type
	}
	return p.Root
}

type ClosureVal struct {
	Fn   *ssa.Function
	Bind []Val
}

type FuncVal struct{ Fn *ssa.Function }

// IfaceVal is an interface value whose dynamic payload is known to the executor.
type IfaceVal struct {
	Dyn     types.Type
	Payload Val
	Term    T
}

type TupleVal struct{ Elems []Val }

// ViewVal is a KVStore view: a store (id) of a context cell, optionally under a prefix.
type ViewVal struct {
	Cell   T // Int
	Store  T // Int
	Prefix T // Bytes; zero T if none
}

// WriteCacheVal is the writeCache func returned by ctx.CacheContext().
type WriteCacheVal struct{ Parent, Child T }

// IterVal is a store iterator: ghost sequence of keys with the view it ranges over.
type IterVal struct {
	View  *ViewVal
	Pfx   T      // iteration prefix (Bytes) relative to the view
	Seq   T      // (Array Int Bytes): keys relative to the view
	N     T      // length
	IdxID int    // cell id holding the current index
	Pos   string // Skolem function: position of a key in Seq
}

// OpaqueVal is a value the executor does not model (with a reason).
type OpaqueVal struct{ Why string }

// Exec holds what is shared by all paths of one run.
type Exec struct {
	W       *World
	CS      *ContractSet
	Sorts   *Sorts
	Prelude *Prelude
	Lits    *Literals
	fresh   int
	Opts    Options
	typeIDs map[string]int
	// statistics
	Inlined      map[string]bool
	Havocs       map[string]bool
	Assumed      map[string]bool   // library models / assumed contracts used
	Bindings     map[string]string // interface type -> concrete type (qualified)
	funDecls     map[string]string
	funOrder     []string
	globalCache  map[*ssa.Global]*T
	heapSorts    map[string]string
	heapOrder    []string
	axioms       []string
	placeholders map[string]string
	side         []T // axiom instances produced while building terms; flushed into the path condition
}

type Options struct {
	MaxPaths      int
	MaxInline     int
	Unroll        int
	NoPanicChecks bool
	NoMerge       bool // disable the if-conversion of simple branches (merge.go)
}

func NewExec(w *World, cs *ContractSet, pre *Prelude) *Exec {
	return &Exec{W: w, CS: cs, Sorts: NewSorts(), Prelude: pre, Lits: NewLiterals(),
		Opts:    Options{MaxPaths: 20000, MaxInline: 4, Unroll: 2, NoMerge: os.Getenv("VERIF_NOMERGE") != ""},
		typeIDs: map[string]int{}, Inlined: map[string]bool{}, Havocs: map[string]bool{}, Assumed: map[string]bool{}}
}

func (ex *Exec) TypeID(t types.Type) int {
	k := typeKey(t)
	if id, ok := ex.typeIDs[k]; ok {
		return id
	}
	id := len(ex.typeIDs) + 1
	ex.typeIDs[k] = id
	return id
}

// Literals interns byte-string literals as (blit id); ids are content hashes so that they are
// stable across runs and independent of the set of packages loaded.
type Literals struct {
	ids  map[string]int64
	strs []string
}

func NewLiterals() *Literals {
	l := &Literals{ids: map[string]int64{}}
	l.ID("")
	return l
}

func (l *Literals) ID(s string) int64 {
	if id, ok := l.ids[s]; ok {
		return id
	}
	var id int64
	if s != "" {
		h := fnv.New64a()
		h.Write([]byte(s))
		id = int64(h.Sum64()&((1<<52)-1)) + 1
	}
	l.ids[s] = id
	l.strs = append(l.strs, s)
	return id
}

func (l *Literals) Term(s string) T { return mk(SBytes, "(blit %d)", l.ID(s)) }

// Axioms returns length facts for all interned literals.
func (l *Literals) Axioms() string {
	var sb strings.Builder
	for _, s := range l.strs {
		if strings.HasPrefix(s, "store:") || strings.HasPrefix(s, "join:") {
			continue
		}
		fmt.Fprintf(&sb, "(assert (= (blen (blit %d)) %d)) ; %q\n", l.ids[s], len(s), truncate(s, 40))
	}
	return sb.String()
}

func truncate(s string, n int) string {
	if len(s) > n {
		return s[:n] + "..."
	}
	return s
}

// PState is the state of one symbolic path.
type PState struct {
	ex       *Exec
	pc       []T
	decls    []string
	env      map[ssa.Value]Val
	cells    map[int]Val
	heaps    map[string]T
	kv       T
	trace    T // (Array Int Int) ghost event trace (encoded events)
	traceN   T
	notes    []string
	bounded  bool
	dead     bool
	ncell    *int
	loopSnap map[int]*PState // state at the start of the current iteration, per loop ordinal
	callRes  map[string]Val  // latest result of each callee (by method name) on this path, for guard clauses
	deferred []deferRec      // pending deferred calls on this path (innermost frame last)
}

// deferRec is one pending `defer` of a frame.
type deferRec struct {
	fr *frame
	d  *ssa.Defer
}

func (ex *Exec) NewState() *PState {
	n := 0
	st := &PState{ex: ex, env: map[ssa.Value]Val{}, cells: map[int]Val{}, heaps: map[string]T{}, ncell: &n}
	st.kv = st.Fresh("kv", SKV)
	st.trace = st.Fresh("trace", "(Array Int Ev)")
	st.traceN = st.Fresh("traceN", SInt)
	st.Assume(App(SBool, ">=", st.traceN, IntLit(0)))
	return st
}

func (st *PState) Clone() *PState {
	c := *st
	c.pc = append([]T(nil), st.pc...)
	c.decls = append([]string(nil), st.decls...)
	c.notes = append([]string(nil), st.notes...)
	c.env = make(map[ssa.Value]Val, len(st.env))
	for k, v := range st.env {
		c.env[k] = v
	}
	c.cells = make(map[int]Val, len(st.cells))
	for k, v := range st.cells {
		c.cells[k] = v
	}
	c.heaps = make(map[string]T, len(st.heaps))
	for k, v := range st.heaps {
		c.heaps[k] = v
	}
	c.deferred = append([]deferRec(nil), st.deferred...)
	if st.callRes != nil {
		c.callRes = make(map[string]Val, len(st.callRes))
		for k, v := range st.callRes {
			c.callRes[k] = v
		}
	}
	return &c
}

// Snapshot returns a copy that shares nothing mutable (for old()).
func (st *PState) Snapshot() *PState { return st.Clone() }

func (st *PState) Assume(t T) {
	if t.S == "true" {
		return
	}
	if t.S == "false" {
		st.dead = true
	}
	// cheap syntactic infeasibility check: the negation of t is already assumed
	neg := Not(t).S
	for _, p := range st.pc {
		if p.S == neg {
			st.dead = true
			break
		}
	}
	st.pc = append(st.pc, t)
}

func (st *PState) Note(format string, a ...interface{}) {
	st.notes = append(st.notes, fmt.Sprintf(format, a...))
}

// Fresh declares a fresh constant of the given sort.
func (st *PState) Fresh(hint, sort string) T {
	st.ex.fresh++
	name := fmt.Sprintf("%s_%d", sanitize(hint), st.ex.fresh)
	st.decls = append(st.decls, fmt.Sprintf("(declare-const %s %s)", name, sort))
	return T{S: name, Sort: sort}
}

// FreshOf declares a fresh constant for a Go type and adds its type facts.
func (st *PState) FreshOf(hint string, t types.Type) T {
	v := st.Fresh(hint, st.ex.Sorts.SortOf(t))
	v.Go = t
	st.TypeFacts(v, t, 0)
	return v
}

// Name introduces a definition for a (large) term and returns the symbol.
func (st *PState) Name(hint string, t T) T {
	if len(t.S) < 48 {
		return t
	}
	st.ex.fresh++
	name := fmt.Sprintf("%s_%d", sanitize(hint), st.ex.fresh)
	st.decls = append(st.decls, fmt.Sprintf("(define-fun %s () %s %s)", name, t.Sort, t.S))
	return T{S: name, Sort: t.Sort, Go: t.Go}
}

// TypeFacts assumes the facts implied by the Go type of v (integer ranges, non-nil strings,...).
func (st *PState) TypeFacts(v T, t types.Type, depth int) {
	if t == nil || depth > 3 {
		return
	}
	if v.Sort == SCtx {
		lo, hi := rangeOf(64, true)
		st.Assume(And(App(SBool, "<=", lo, App(SInt, "ctx_height", v)), App(SBool, "<=", App(SInt, "ctx_height", v), hi),
			App(SBool, "<=", lo, App(SInt, "ctx_time", v)), App(SBool, "<=", App(SInt, "ctx_time", v), hi),
			Not(Eq(App(SBytes, "ctx_chainid", v), bnilT))))
		return
	}
	if bits, signed, ok := intRange(t); ok && v.Sort == SInt {
		lo, hi := rangeOf(bits, signed)
		st.Assume(And(App(SBool, "<=", lo, v), App(SBool, "<=", v, hi)))
		return
	}
	if b, ok := t.Underlying().(*types.Basic); ok && b.Info()&types.IsString != 0 {
		st.Assume(Not(Eq(v, T{S: "bnil", Sort: SBytes})))
		st.Assume(App(SBool, ">=", App(SInt, "blen", v), IntLit(0)))
		return
	}
	if isByteArray(t) {
		st.Assume(Not(Eq(v, T{S: "bnil", Sort: SBytes})))
		return
	}
	if isByteSlice(t) {
		st.Assume(App(SBool, ">=", App(SInt, "blen", v), IntLit(0)))
		st.Assume(Implies(Eq(v, T{S: "bnil", Sort: SBytes}), Eq(App(SInt, "blen", v), IntLit(0))))
		return
	}
	if v.Sort == SSlice {
		st.Assume(And(App(SBool, ">=", App(SInt, "slen", v), IntLit(0)), App(SBool, ">=", App(SInt, "scap", v), App(SInt, "slen", v)),
			App(SBool, ">=", App(SInt, "soff", v), IntLit(0)), App(SBool, ">=", App(SInt, "sbase", v), IntLit(0)),
			App(SBool, "<", App(SInt, "sbase", v), T{S: "REF0", Sort: SInt}), // not one of this function's own allocations
			Implies(Eq(App(SInt, "sbase", v), IntLit(0)), Eq(App(SInt, "slen", v), IntLit(0)))))
		return
	}
	if _, ok := t.Underlying().(*types.Pointer); ok && v.Sort == SInt {
		st.Assume(And(App(SBool, ">=", v, IntLit(0)), App(SBool, "<", v, T{S: "REF0", Sort: SInt})))
		return
	}
	if _, ok := t.Underlying().(*types.Map); ok && v.Sort == SInt {
		st.Assume(And(App(SBool, ">=", v, IntLit(0)), App(SBool, "<", v, T{S: "REF0", Sort: SInt})))
		return
	}
	if si := st.ex.Sorts.StructInfoOf(t); si != nil {
		for i := range si.Fields {
			f := si.Fields[i]
			switch f.Go.Underlying().(type) {
			case *types.Basic, *types.Slice, *types.Struct, *types.Pointer, *types.Array:
				st.TypeFacts(st.ex.Sorts.Field(v, si, i), f.Go, depth+1)
			}
		}
	}
}

func rangeOf(bits int, signed bool) (T, T) {
	pow := func(n int) string {
		x := newBig(1)
		x.Lsh(x, uint(n))
		return x.String()
	}
	if signed {
		return mk(SInt, "(- %s)", pow(bits-1)), mk(SInt, "(- %s 1)", pow(bits-1))
	}
	return IntLit(0), mk(SInt, "(- %s 1)", pow(bits))
}

// Heap returns the current heap array for pointee type t.
func (st *PState) Heap(t types.Type) (string, T) {
	name, es := st.ex.Sorts.Heap(t)
	h, ok := st.heaps[name]
	if !ok {
		h = st.initHeap(name, fmt.Sprintf("(Array Int %s)", es))
	}
	return name, h
}

// initHeap returns the entry-state heap constant <name>_0 (shared by all snapshots, declared at emit time).
func (st *PState) initHeap(name, sort string) T {
	ex := st.ex
	if ex.heapSorts == nil {
		ex.heapSorts = map[string]string{}
	}
	if _, ok := ex.heapSorts[name]; !ok {
		ex.heapSorts[name] = sort
		ex.heapOrder = append(ex.heapOrder, name)
	}
	h := T{S: name + "_0", Sort: sort}
	st.heaps[name] = h
	return h
}

func (st *PState) SetHeap(name string, h T) { st.heaps[name] = h }

// NewCell allocates a local cell.
func (st *PState) NewCell(v Val) int {
	*st.ncell++
	st.cells[*st.ncell] = v
	return *st.ncell
}

// NewRef allocates a fresh heap reference (distinct from all incoming references and earlier allocations).
func (st *PState) NewRef() T {
	st.ex.fresh++
	return mk(SInt, "(+ REF0 %d)", st.ex.fresh)
}

// PC returns the path condition as a conjunction.
func (st *PState) PC() T { return And(st.pc...) }

// HeapNames returns the sorted names of heaps touched on this path.
func (st *PState) HeapNames() []string {
	var xs []string
	for k := range st.heaps {
		if strings.HasPrefix(k, "GH_") {
			continue // ghost counters change only through `bumps` clauses (see Ghost)
		}
		xs = append(xs, k)
	}
	sort.Strings(xs)
	return xs
}

// Ghost returns the current value of the ghost counter name. Ghost counters are integers that exist only in
// contracts: a callee contract `bumps name by e` adds e at every call; nothing else changes them (in particular
// havoced calls are assumed not to reach a function that bumps: listed in evidence as an assumption).
func (st *PState) Ghost(name string) T {
	k := "GH_" + sanitize(name)
	if v, ok := st.heaps[k]; ok {
		return v
	}
	return st.initHeap(k, SInt)
}

func (st *PState) SetGhost(name string, v T) { st.heaps["GH_"+sanitize(name)] = v }

// LoadBindings reads "iface => concrete" lines (module-relative qualified type names).
func (ex *Exec) LoadBindings(path string) {
	ex.Bindings = map[string]string{}
	b, err := os.ReadFile(path)
	if err != nil {
		return
	}
	for _, line := range strings.Split(string(b), "\n") {
		line = strings.TrimSpace(line)
		if line == "" || strings.HasPrefix(line, "#") {
			continue
		}
		parts := strings.Split(line, "=>")
		if len(parts) != 2 {
			continue
		}
		q := func(s string) string {
			s = strings.TrimSpace(s)
			if strings.HasPrefix(s, "x/") || strings.HasPrefix(s, "precompiles/") || strings.HasPrefix(s, "app/") || strings.HasPrefix(s, "utils") {
				return RepoModule + "/" + s
			}
			return s
		}
		ex.Bindings[q(parts[0])] = q(parts[1])
	}
}

// Lookup returns the literal string of a (blit id) term.
func (l *Literals) Lookup(t T) (string, bool) {
	for s, id := range l.ids {
		if t.S == fmt.Sprintf("(blit %d)", id) {
			return s, true
		}
	}
	return "", false
}

// FlushSide moves pending axiom instances into the path condition.
func (st *PState) FlushSide() {
	for _, f := range st.ex.side {
		st.Assume(f)
	}
	st.ex.side = nil
}

const SStore = "(Array Bytes Bytes)"

// stGet / stSet read and write one key of one module store inside a State term.
func stGet(state, sid, key T) T {
	return Select(Select(state, sid, SStore), key, SBytes)
}

func stSet(state, sid, key, val T) T {
	return Store(state, sid, Store(Select(state, sid, SStore), key, val))
}

// Iters returns the store iterators alive on this path (held in SSA values or local cells).
func (st *PState) Iters() []*IterVal {
	seen := map[*IterVal]bool{}
	var out []*IterVal
	add := func(x Val) {
		switch it := x.(type) {
		case *IterVal:
			if !seen[it] {
				seen[it] = true
				out = append(out, it)
			}
		case *IfaceVal:
			if iv, ok := it.Payload.(*IterVal); ok && !seen[iv] {
				seen[iv] = true
				out = append(out, iv)
			}
		}
	}
	for _, x := range st.env {
		add(x)
	}
	for _, x := range st.cells {
		add(x)
	}
	sort.Slice(out, func(i, j int) bool { return out[i].IdxID < out[j].IdxID })
	return out
}

// pcHas reports whether t is literally one of the path-condition conjuncts.
func (st *PState) pcHas(t T) bool {
	for _, p := range st.pc {
		if p.S == t.S {
			return true
		}
	}
	return false
}
