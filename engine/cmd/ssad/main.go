// ssad: dump go/ssa of selected functions of /repo packages (development aid).
package main

import (
	"fmt"
	"os"
	"strings"

	"golang.org/x/tools/go/packages"
	"golang.org/x/tools/go/ssa"
	"golang.org/x/tools/go/ssa/ssautil"
)

func main() {
	pkgpat := os.Args[1]
	fnpat := os.Args[2]
	cfg := &packages.Config{Dir: "/repo", Mode: packages.NeedName | packages.NeedFiles | packages.NeedCompiledGoFiles | packages.NeedImports | packages.NeedTypes | packages.NeedTypesSizes | packages.NeedSyntax | packages.NeedTypesInfo}
	pkgs, err := packages.Load(cfg, strings.Split(pkgpat, ",")...)
	if err != nil {
		panic(err)
	}
	prog, spkgs := ssautil.Packages(pkgs, ssa.InstantiateGenerics)
	_ = prog
	for _, sp := range spkgs {
		if sp == nil {
			continue
		}
		sp.Build()
		var dump func(f *ssa.Function)
		dump = func(f *ssa.Function) {
			if strings.Contains(f.String(), fnpat) {
				f.WriteTo(os.Stdout)
				fmt.Println()
			}
			for _, af := range f.AnonFuncs {
				dump(af)
			}
		}
		for _, m := range sp.Members {
			switch m := m.(type) {
			case *ssa.Function:
				dump(m)
			case *ssa.Type:
				for _, t := range []interface{ String() string }{} {
					_ = t
				}
				ms := prog.MethodSets.MethodSet(m.Type())
				for i := 0; i < ms.Len(); i++ {
					if f := prog.MethodValue(ms.At(i)); f != nil && f.Pkg == sp {
						dump(f)
					}
				}
				// pointer receiver
			}
		}
	}
}
