// exovc: contract-based deductive verification of exocore (see /verif/DESIGN.md).
package main

import (
	"flag"
	"fmt"
	"os"
	"sort"
	"strings"
	"time"

	"exovc/vc"
)

func main() {
	if len(os.Args) < 2 {
		fmt.Fprintln(os.Stderr, "usage: exovc <dev|check|baseline|selfcheck|replay> ...")
		os.Exit(2)
	}
	switch os.Args[1] {
	case "dev":
		dev(os.Args[2:])
	case "check":
		os.Exit(checkCmd(os.Args[2:]))
	case "baseline":
		os.Exit(baselineCmd(os.Args[2:]))
	case "selfcheck":
		os.Exit(selfcheckCmd(os.Args[2:]))
	case "replay":
		os.Exit(replayCmd(os.Args[2:]))
	default:
		fmt.Fprintln(os.Stderr, "unknown command", os.Args[1])
		os.Exit(2)
	}
}

func verifDir() string {
	if d := os.Getenv("VERIF_DIR"); d != "" {
		return d
	}
	return "/verif"
}

func repoDir() string {
	if d := os.Getenv("VERIF_REPO"); d != "" {
		return d
	}
	return "/repo"
}

// dev: generate and solve the obligations of selected functions, verbosely.
func dev(args []string) {
	fs := flag.NewFlagSet("dev", flag.ExitOnError)
	pkgs := fs.String("pkgs", "", "comma-separated package patterns relative to the repo")
	fnpat := fs.String("fn", "", "substring of qualified function names to verify (default: all with contracts)")
	timeout := fs.Duration("timeout", 10*time.Second, "per-obligation timeout")
	show := fs.Bool("show", false, "print SMT of failing obligations")
	lemmas := fs.Bool("lemmas", true, "also check lemmas")
	verbose := fs.Bool("v", false, "list discharged groups too")
	fs.Parse(args)
	t0 := time.Now()
	pats := strings.Split(*pkgs, ",")
	pats = append(pats, globalRefPackages(contractFiles(repoDir()))...)
	w, err := vc.Load(repoDir(), pats)
	if err != nil {
		fmt.Println("load:", err)
		os.Exit(2)
	}
	fmt.Printf("loaded %d packages, %d functions in %.1fs\n", len(w.Pkgs), len(w.Funcs), time.Since(t0).Seconds())
	cs := vc.NewContractSet()
	for _, f := range contractFiles(repoDir()) {
		if err := cs.LoadContractFile(f, pkgPathOfFile(repoDir(), f)); err != nil {
			fmt.Println("contracts:", err)
			os.Exit(2)
		}
	}
	if err := cs.LoadLibContracts(verifDir() + "/lib"); err != nil {
		fmt.Println("lib contracts:", err)
		os.Exit(2)
	}
	pre, err := vc.LoadPrelude(verifDir() + "/spec")
	if err != nil {
		fmt.Println("prelude:", err)
		os.Exit(2)
	}
	ex := vc.NewExec(w, cs, pre)
	ex.LoadBindings(verifDir() + "/spec/bindings.txt")
	var names []string
	for n := range cs.ByFunc {
		names = append(names, n)
	}
	sort.Strings(names)
	var obls []*vc.Obligation
	for _, n := range names {
		ct := cs.ByFunc[n]
		if ct.Flags["assumed"] != "" {
			continue
		}
		if *fnpat != "" && !strings.Contains(n, *fnpat) {
			continue
		}
		if !inPkgs(ct.Pkg, strings.Split(*pkgs, ",")) {
			continue
		}
		r := ex.VerifyFunc(ct)
		fmt.Printf("== %s: %d obligations, %d paths, %d returns", vc.ShortName(n), len(r.Obls), r.Paths, r.Returns)
		if r.Err != "" {
			fmt.Printf(" ERROR: %s", r.Err)
		}
		if r.Bounded {
			fmt.Printf(" [bounded]")
		}
		if r.CapHit {
			fmt.Printf(" [path cap]")
		}
		fmt.Println()
		if len(r.Inlined) > 0 {
			fmt.Println("   inlined:", strings.Join(r.Inlined, ", "))
		}
		if len(r.Havocs) > 0 {
			fmt.Println("   havoc:", strings.Join(r.Havocs, ", "))
		}
		for _, nt := range r.Notes {
			fmt.Println("   note:", nt)
		}
		obls = append(obls, r.Obls...)
	}
	if *lemmas {
		for _, l := range cs.Lemmas {
			if *fnpat != "" && !strings.Contains(l.Name, *fnpat) {
				continue
			}
			os_, err := ex.LemmaObligations(l)
			if err != nil {
				fmt.Println("lemma error:", err)
				continue
			}
			obls = append(obls, os_...)
		}
	}
	dir := verifDir() + "/out/dev"
	os.RemoveAll(dir)
	res := ex.SolveAll(obls, dir, *timeout, 16, false)
	bad := 0
	coverOK := map[string]bool{}
	for _, r := range res {
		if r.Obl.Cover && r.Status == "sat" {
			coverOK[groupOf(r.Obl.Name)] = true
		}
	}
	type agg struct {
		n, bad int
		status map[string]int
		first  *vc.SolveResult
		maxs   float64
	}
	groups := map[string]*agg{}
	var order []string
	for _, r := range res {
		if r.Obl.Cover && coverOK[groupOf(r.Obl.Name)] {
			continue
		}
		g := groupOf(r.Obl.Name)
		a := groups[g]
		if a == nil {
			a = &agg{status: map[string]int{}}
			groups[g] = a
			order = append(order, g)
		}
		a.n++
		if r.Seconds > a.maxs {
			a.maxs = r.Seconds
		}
		want := "unsat"
		if r.Obl.Cover {
			want = "sat"
		}
		if r.Status != want {
			a.bad++
			bad++
			a.status[r.Status]++
			if a.first == nil {
				a.first = r
			}
		}
	}
	for _, g := range order {
		a := groups[g]
		if a.bad == 0 {
			if *verbose {
				fmt.Printf("ok   %-60s %d obligations, max %.2fs\n", g, a.n, a.maxs)
			}
			continue
		}
		fmt.Printf("FAIL %s: %d of %d not as expected %v  [%s]\n", g, a.bad, a.n, a.status, truncateLines(a.first.Obl.Src, 1))
		if *show {
			m, f := ex.ModelFor(a.first.Obl, dir, *timeout)
			fmt.Println("   first failing:", a.first.Obl.Name, "file:", f)
			if m == "" {
				fmt.Println(indent(truncateLines(a.first.Output, 12)))
			}
			fmt.Println(indent(truncateLines(m, 60)))
		}
	}
	fmt.Printf("%d obligations, %d not as expected, %.1fs\n", len(res), bad, time.Since(t0).Seconds())
}

func indent(s string) string { return "      " + strings.ReplaceAll(s, "\n", "\n      ") }

func truncateLines(s string, n int) string {
	ls := strings.Split(s, "\n")
	if len(ls) > n {
		ls = append(ls[:n], "...")
	}
	return strings.Join(ls, "\n")
}

func inPkgs(pkgPath string, pats []string) bool {
	for _, p := range pats {
		if vc.RepoModule+"/"+strings.TrimPrefix(p, "./") == pkgPath {
			return true
		}
	}
	return false
}
