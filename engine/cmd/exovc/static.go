package main

import (
	"fmt"
	"go/ast"
	"go/parser"
	"go/token"
	"path/filepath"
	"strings"
)

// StaticObligation is a syntactic obligation on the source of /repo (no SMT): it is re-derived from the
// working tree on every run.
type StaticObligation struct {
	Name   string
	Src    string
	OK     bool
	Detail string
}

// staticObligations returns the static obligations of a property.
func staticObligations(prop string) []StaticObligation {
	var out []StaticObligation
	switch prop {
	case "C15":
		out = append(out, epochHookOrder("C15.static.hook_order", []string{"DistrKeeper", "OperatorKeeper", "StakingKeeper", "ExomintKeeper", "AVSManagerKeeper"}))
	case "C17":
		o := epochHookOrder("C17.static.distribution_before_mint", nil)
		// only the relative order of distribution and mint matters here
		got := strings.Split(o.Detail, ",")
		di, mi := -1, -1
		for i, g := range got {
			if g == "DistrKeeper" {
				di = i
			}
			if g == "ExomintKeeper" {
				mi = i
			}
		}
		o.OK = di >= 0 && mi >= 0 && di < mi
		o.Src = "app.go: the fee-distribution epoch hook is registered before the mint hook"
		out = append(out, o)
	}
	return out
}

// epochHookOrder reads the arguments of epochstypes.NewMultiEpochHooks(...) in app/app.go.
func epochHookOrder(name string, want []string) StaticObligation {
	o := StaticObligation{Name: "app.NewExocoreApp/" + name + "/static", Src: "app.go: EpochsKeeper.SetHooks(NewMultiEpochHooks(" + strings.Join(want, ", ") + "))"}
	fset := token.NewFileSet()
	f, err := parser.ParseFile(fset, filepath.Join(repoDir(), "app", "app.go"), nil, 0)
	if err != nil {
		o.Detail = err.Error()
		return o
	}
	var got []string
	found := 0
	ast.Inspect(f, func(n ast.Node) bool {
		call, ok := n.(*ast.CallExpr)
		if !ok {
			return true
		}
		sel, ok := call.Fun.(*ast.SelectorExpr)
		if !ok || sel.Sel.Name != "NewMultiEpochHooks" {
			return true
		}
		found++
		got = nil
		for _, a := range call.Args {
			// app.XKeeper.EpochsHooks()
			s := exprText(a)
			parts := strings.Split(s, ".")
			if len(parts) >= 3 && parts[len(parts)-1] == "EpochsHooks()" {
				got = append(got, parts[len(parts)-2])
			} else {
				got = append(got, s)
			}
		}
		return true
	})
	o.Detail = strings.Join(got, ",")
	if found != 1 {
		o.Detail = fmt.Sprintf("%d NewMultiEpochHooks calls found; %s", found, o.Detail)
		return o
	}
	if want != nil {
		o.OK = strings.Join(got, ",") == strings.Join(want, ",")
	}
	return o
}

func exprText(e ast.Expr) string {
	switch x := e.(type) {
	case *ast.Ident:
		return x.Name
	case *ast.SelectorExpr:
		return exprText(x.X) + "." + x.Sel.Name
	case *ast.CallExpr:
		return exprText(x.Fun) + "()"
	case *ast.UnaryExpr:
		return exprText(x.X)
	case *ast.ParenExpr:
		return exprText(x.X)
	}
	return "?"
}
