package main

import (
	"os/exec"

	"exovc/vc"
)

func lookPath(s string) (string, error) { return exec.LookPath(s) }

func execCommand(name string, args ...string) *exec.Cmd { return exec.Command(name, args...) }

// tryReplay attempts to run the solver's counterexample against the real code. It returns a
// textual report containing REPLAY-CONFIRMED when the real code exhibits the violation; ""
// when no replay harness exists for the obligation's function.
func tryReplay(rc *runCtx, r *vc.SolveResult, model, base string) string {
	ct := rc.cs.ByFunc[r.Obl.Func]
	if ct == nil {
		return ""
	}
	rep, _ := rc.ex.ReplayPure(r.Obl, ct, base+".replay")
	return rep
}
