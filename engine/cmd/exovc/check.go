package main

import (
	"encoding/json"
	"flag"
	"fmt"
	"os"
	"path/filepath"
	"regexp"
	"sort"
	"strconv"
	"strings"
	"time"

	"exovc/vc"
)

// Baseline lists the obligation groups claimed for a property (discharged on the pinned tree).
type Baseline struct {
	Property string                    `json:"property"`
	Groups   map[string]*BaselineGroup `json:"groups"`
	Note     string                    `json:"note,omitempty"`
}

type BaselineGroup struct {
	Status string  `json:"status"` // discharged
	Count  int     `json:"count"`
	MaxSec float64 `json:"max_s"`
}

// KnownFinding is one entry of /verif/known_findings.json.
type KnownFinding struct {
	ID         string   `json:"id"`
	Property   string   `json:"property"`
	Status     string   `json:"status"` // known | fixed
	Groups     []string `json:"groups"` // obligation groups that fail because of this finding
	Sites      []string `json:"sites,omitempty"`
	What       string   `json:"what_fails"`
	Replay     string   `json:"replay,omitempty"`
	ReplayFile string   `json:"replay_file,omitempty"`
	ReplayPkg  string   `json:"replay_pkg,omitempty"`
	ReplayRun  string   `json:"replay_run,omitempty"`
	Commit     string   `json:"commit,omitempty"`
}

var retSiteRe = regexp.MustCompile(`:ret\d+`)
var pathIdxRe = regexp.MustCompile(`/\d+$`)

// groupOf maps an obligation name to its stable group: function/label/kind (no return ordinal, no path index).
func groupOf(name string) string {
	n := pathIdxRe.ReplaceAllString(name, "")
	if strings.Contains(n, "/cover:") {
		return n // covers are grouped per return site
	}
	n = retSiteRe.ReplaceAllString(n, "")
	return n
}

func siteOf(name string) string { return pathIdxRe.ReplaceAllString(name, "") }

type runCtx struct {
	prop        string
	tier        string
	seed        int
	w           *vc.World
	cs          *vc.ContractSet
	ex          *vc.Exec
	funcs       []*vc.FuncResult
	obls        []*vc.Obligation
	results     []*vc.SolveResult
	outDir      string
	knownReplay map[string]string
	loadS       float64
	genS        float64
	solveS      float64
}

// contractFiles finds every zz_contracts_verif.go under the repo (x, precompiles, app, utils).
func contractFiles(repo string) []string {
	var out []string
	for _, top := range []string{"x", "precompiles", "app", "utils", "types"} {
		filepath.Walk(filepath.Join(repo, top), func(p string, info os.FileInfo, err error) error {
			if err == nil && !info.IsDir() && info.Name() == "zz_contracts_verif.go" {
				out = append(out, p)
			}
			return nil
		})
	}
	sort.Strings(out)
	return out
}

func pkgPathOfFile(repo, file string) string {
	rel, _ := filepath.Rel(repo, filepath.Dir(file))
	return vc.RepoModule + "/" + filepath.ToSlash(rel)
}

// prepare loads contracts, decides which packages the property needs, loads them and generates obligations.
func prepare(prop, tier string, seed int) (*runCtx, error) {
	rc := &runCtx{prop: prop, tier: tier, seed: seed}
	repo := repoDir()
	cs := vc.NewContractSet()
	files := contractFiles(repo)
	for _, f := range files {
		if err := cs.LoadContractFile(f, pkgPathOfFile(repo, f)); err != nil {
			return nil, err
		}
	}
	if err := cs.LoadLibContracts(verifDir() + "/lib"); err != nil {
		return nil, err
	}
	rc.cs = cs
	// packages that hold functions with clauses of this property
	need := map[string]bool{}
	serves := false
	for _, ct := range cs.ByFunc {
		if ct.Pkg != "" && contractServes(ct, prop) {
			serves = true
		}
	}
	if serves {
		// every package that carries contracts is loaded, so that callees under contract in other packages are
		// resolved the same way for every property
		for _, f := range files {
			need["./"+strings.TrimPrefix(pkgPathOfFile(repo, f), vc.RepoModule+"/")] = true
		}
	}
	if len(need) > 0 {
		for _, p := range globalRefPackages(files) {
			need[p] = true
		}
	}
	var pats []string
	for p := range need {
		pats = append(pats, p)
	}
	sort.Strings(pats)
	if len(pats) == 0 && !hasLemmas(cs, prop) {
		return nil, fmt.Errorf("no contract clause labelled %s.* found under %s", prop, repo)
	}
	t0 := time.Now()
	if len(pats) == 0 {
		pats = []string{"./utils"}
	}
	w, err := vc.Load(repo, pats)
	if err != nil {
		return nil, err
	}
	rc.w = w
	rc.loadS = time.Since(t0).Seconds()
	pre, err := vc.LoadPrelude(verifDir() + "/spec")
	if err != nil {
		return nil, err
	}
	ex := vc.NewExec(w, cs, pre)
	ex.LoadBindings(verifDir() + "/spec/bindings.txt")
	rc.ex = ex
	t1 := time.Now()
	var names []string
	for n := range cs.ByFunc {
		names = append(names, n)
	}
	sort.Strings(names)
	for _, n := range names {
		ct := cs.ByFunc[n]
		if ct.Flags["assumed"] != "" || !contractServes(ct, prop) {
			continue
		}
		r := ex.VerifyFunc(ct)
		rc.funcs = append(rc.funcs, r)
		for _, o := range r.Obls {
			if o.Label == "" || o.Label == "frame" || labelServes(o.Label, prop) {
				rc.obls = append(rc.obls, o)
			}
		}
	}
	for _, l := range cs.Lemmas {
		if !labelServes(l.Label, prop) {
			continue
		}
		os_, err := ex.LemmaObligations(l)
		if err != nil {
			return nil, err
		}
		rc.obls = append(rc.obls, os_...)
	}
	rc.genS = time.Since(t1).Seconds()
	return rc, nil
}

func hasLemmas(cs *vc.ContractSet, prop string) bool {
	for _, l := range cs.Lemmas {
		if labelServes(l.Label, prop) {
			return true
		}
	}
	return false
}

// labelServes reports whether a clause label (one or more comma-separated "Cxx.name" parts) belongs to prop.
func labelServes(label, prop string) bool {
	for _, part := range strings.Split(label, ",") {
		if strings.HasPrefix(strings.TrimSpace(part), prop+".") {
			return true
		}
	}
	return false
}

func contractServes(ct *vc.Contract, prop string) bool {
	for _, c := range ct.Ensures {
		if labelServes(c.Label, prop) {
			return true
		}
	}
	for _, c := range ct.NoPanic {
		if labelServes(c.Label, prop) {
			return true
		}
	}
	for _, g := range ct.Guards {
		if labelServes(g.Label, prop) {
			return true
		}
	}
	for _, cl := range ct.Loops {
		for _, c := range cl {
			if labelServes(c.Label, prop) {
				return true
			}
		}
	}
	for _, cl := range ct.Steps {
		for _, c := range cl {
			if labelServes(c.Label, prop) {
				return true
			}
		}
	}
	return false
}

func (rc *runCtx) solve(timeout time.Duration, cross bool) {
	rc.outDir = filepath.Join(verifDir(), "out", fmt.Sprintf("%s-%s", rc.prop, rc.tier))
	os.RemoveAll(rc.outDir)
	t0 := time.Now()
	rc.results = rc.ex.SolveAll(rc.obls, rc.outDir, timeout, 16, cross)
	rc.solveS = time.Since(t0).Seconds()
}

type groupStat struct {
	Name    string
	Total   int
	OK      int
	Bad     []*vc.SolveResult
	MaxSec  float64
	Cover   bool
	Bounded bool
	Kind    string
}

func (rc *runCtx) groups() map[string]*groupStat {
	gs := map[string]*groupStat{}
	for _, r := range rc.results {
		g := groupOf(r.Obl.Name)
		s := gs[g]
		if s == nil {
			s = &groupStat{Name: g, Cover: r.Obl.Cover, Kind: r.Obl.Kind}
			gs[g] = s
		}
		s.Total++
		want := "unsat"
		if r.Obl.Cover {
			want = "sat"
		}
		if r.Status == want {
			s.OK++
		} else {
			s.Bad = append(s.Bad, r)
		}
		if r.WinSecs > s.MaxSec {
			s.MaxSec = r.WinSecs
		}
		if r.Obl.Bounded {
			s.Bounded = true
		}
	}
	// a cover group is fine when at least one of its paths is satisfiable
	for _, s := range gs {
		if s.Cover && s.OK > 0 {
			s.Bad = nil
		}
	}
	return gs
}

func loadBaseline(prop string) *Baseline {
	b := &Baseline{Property: prop, Groups: map[string]*BaselineGroup{}}
	data, err := os.ReadFile(filepath.Join(verifDir(), "baseline", prop+".json"))
	if err != nil {
		return b
	}
	json.Unmarshal(data, b)
	if b.Groups == nil {
		b.Groups = map[string]*BaselineGroup{}
	}
	return b
}

func loadKnown() []*KnownFinding {
	var kf []*KnownFinding
	data, err := os.ReadFile(filepath.Join(verifDir(), "known_findings.json"))
	if err != nil {
		return nil
	}
	json.Unmarshal(data, &kf)
	return kf
}

func baselineCmd(args []string) int {
	fs := flag.NewFlagSet("baseline", flag.ExitOnError)
	prop := fs.String("p", "", "property id")
	timeout := fs.Duration("timeout", 10*time.Second, "per-obligation timeout")
	fs.Parse(args)
	rc, err := prepare(*prop, "quick", 0)
	if err != nil {
		fmt.Println("error:", err)
		return 2
	}
	rc.solve(*timeout, false)
	gs := rc.groups()
	// stability: lemmas (nonlinear arithmetic) and anything that needed more than 0.5 s are re-run with two more solver seeds
	var again []*vc.Obligation
	for _, r := range rc.results {
		if !r.Obl.Cover && (r.Obl.Kind == "lemma" || r.WinSecs > 0.5) {
			again = append(again, r.Obl)
		}
	}
	for _, seed := range []int{1, 2} {
		vc.SolverSeed = seed
		res := rc.ex.SolveAll(again, filepath.Join(rc.outDir, fmt.Sprintf("seed%d", seed)), *timeout, 16, false)
		for _, r := range res {
			g := gs[groupOf(r.Obl.Name)]
			if g == nil {
				continue
			}
			if r.Status != "unsat" {
				g.Bad = append(g.Bad, r)
			}
			if r.WinSecs > g.MaxSec {
				g.MaxSec = r.WinSecs
			}
		}
	}
	vc.SolverSeed = 0
	b := &Baseline{Property: *prop, Groups: map[string]*BaselineGroup{}}
	var names []string
	for n := range gs {
		names = append(names, n)
	}
	sort.Strings(names)
	admit := 3.0 // seconds: only obligations decided well inside the quick timeout (20 s) are claimed
	never := neverClaim()
	for _, n := range names {
		g := gs[n]
		if g.Cover {
			continue
		}
		lim := admit
		if strings.HasPrefix(n, "lemma:") {
			lim = 1.0 // nonlinear lemmas: the proof time is the least stable quantity in the whole pipeline
		}
		denied := false
		for _, re := range never {
			if re.MatchString(n) {
				denied = true
			}
		}
		if denied {
			fmt.Printf("not claimed: %s (listed in baseline/never_claim.txt)\n", n)
			continue
		}
		if len(g.Bad) == 0 && g.MaxSec <= lim && !g.Bounded {
			b.Groups[n] = &BaselineGroup{Status: "discharged", Count: g.Total, MaxSec: round2(g.MaxSec)}
		} else {
			why := "slow"
			if len(g.Bad) > 0 {
				why = g.Bad[0].Status
			}
			if g.Bounded {
				why = "bounded"
			}
			fmt.Printf("not claimed: %s (%s, %.2fs)\n", n, why, g.MaxSec)
		}
	}
	for _, f := range rc.funcs {
		if f.Err != "" {
			fmt.Printf("function not verified: %s: %s\n", vc.ShortName(f.Func), f.Err)
		}
		for lbl, msg := range f.ClauseErrs {
			if labelServes(lbl, *prop) {
				fmt.Printf("clause not verified: %s %s: %s\n", vc.ShortName(f.Func), lbl, msg)
			}
		}
	}
	data, _ := json.MarshalIndent(b, "", " ")
	os.MkdirAll(filepath.Join(verifDir(), "baseline"), 0o755)
	os.WriteFile(filepath.Join(verifDir(), "baseline", *prop+".json"), append(data, '\n'), 0o644)
	fmt.Printf("baseline %s: %d groups claimed of %d\n", *prop, len(b.Groups), len(names))
	return 0
}

// neverClaim reads baseline/never_claim.txt: regular expressions of obligation groups that are evaluated and reported
// every run but never claimed (proofs that have shown unstable solver times on the unchanged tree).
func neverClaim() []*regexp.Regexp {
	b, err := os.ReadFile(filepath.Join(verifDir(), "baseline", "never_claim.txt"))
	if err != nil {
		return nil
	}
	var out []*regexp.Regexp
	for _, l := range strings.Split(string(b), "\n") {
		l = strings.TrimSpace(l)
		if l == "" || strings.HasPrefix(l, "#") {
			continue
		}
		if re, err := regexp.Compile(l); err == nil {
			out = append(out, re)
		}
	}
	return out
}

func round2(f float64) float64 { return float64(int(f*100+0.5)) / 100 }

func checkCmd(args []string) int {
	fs := flag.NewFlagSet("check", flag.ExitOnError)
	prop := fs.String("p", "", "property id")
	tier := fs.String("tier", "", "quick | thorough")
	fs.Parse(args)
	if *tier == "" {
		*tier = os.Getenv("VERIF_TIER")
	}
	if *tier == "" {
		*tier = "quick"
	}
	seed, _ := strconv.Atoi(os.Getenv("VERIF_SEED"))
	t0 := time.Now()
	rc, err := prepare(*prop, *tier, seed)
	if err != nil {
		fmt.Println("exovc: machinery error:", err)
		return 2
	}
	timeout := 20 * time.Second
	cross := false
	if *tier == "thorough" {
		timeout = 60 * time.Second
		cross = true
	}
	rc.solve(timeout, cross)
	if os.Getenv("VERIF_SLOW") != "" {
		for _, r := range rc.results {
			if r.Seconds > 2 {
				fmt.Printf("slow: %.1fs %s %s %s\n", r.Seconds, r.Status, r.Backend, r.Obl.Name)
			}
		}
	}
	gs := rc.groups()
	base := loadBaseline(*prop)
	known := loadKnown()
	exit := 0
	violations := 0
	var lines []string
	say := func(format string, a ...interface{}) {
		s := fmt.Sprintf(format, a...)
		fmt.Println(s)
		lines = append(lines, s)
	}
	// function-level status
	funcStatus := map[string]*vc.FuncResult{}
	for _, f := range rc.funcs {
		funcStatus[vc.ShortName(f.Func)] = f
		switch {
		case f.Stale:
			say("STALE-CONTRACT property=%s target=%s", *prop, vc.ShortName(f.Func))
		case f.Err != "":
			say("UNDECIDED property=%s function=%s reason=%s", *prop, vc.ShortName(f.Func), f.Err)
		case f.CapHit:
			say("UNDECIDED property=%s function=%s reason=cap", *prop, vc.ShortName(f.Func))
		}
	}
	// vacuity
	for _, g := range gs {
		if g.Cover && strings.HasSuffix(g.Name, "cover:requires") && len(g.Bad) > 0 && g.Bad[0].Status == "unsat" {
			say("exovc: VACUOUS contract (requires unsatisfiable): %s", g.Name)
			exit = 2
		}
		if g.Cover && strings.HasSuffix(g.Name, "cover:hyps") && len(g.Bad) > 0 && g.Bad[0].Status == "unsat" {
			say("exovc: VACUOUS lemma (hypotheses unsatisfiable): %s", g.Name)
			exit = 2
		}
	}
	claimed, discharged := 0, 0
	var unclaimed []map[string]interface{}
	knownHit := map[string]bool{}
	var names []string
	for n := range gs {
		names = append(names, n)
	}
	sort.Strings(names)
	replayDir := filepath.Join(rc.outDir, "replay")
	for _, n := range names {
		g := gs[n]
		if g.Cover {
			continue
		}
		_, isClaimed := base.Groups[n]
		// a label claimed for a function extends to new groups of the same function+label (new sites are in the same group already)
		if !isClaimed {
			st := "discharged-unclaimed"
			if len(g.Bad) > 0 {
				st = g.Bad[0].Status
			}
			kf := matchKnown(known, *prop, n, g)
			if kf != nil && len(g.Bad) > 0 {
				if !knownHit[kf.ID] {
					knownHit[kf.ID] = true
					say("KNOWN-FINDING: property=%s %s [%s] (obligation %s)", *prop, kf.What, kf.ID, n)
				}
				st = "known-finding:" + kf.ID
			}
			unclaimed = append(unclaimed, map[string]interface{}{"group": n, "status": st, "obligations": g.Total})
			continue
		}
		claimed += g.Total
		discharged += g.OK
		if len(g.Bad) == 0 {
			continue
		}
		// a claimed group is no longer discharged
		for _, r := range g.Bad {
			violations++
			exit = max(exit, 1)
			rp := rc.writeReplay(replayDir, r)
			if rp.confirmed {
				say("VIOLATION property=%s replay=%s obligation=%s status=%s", *prop, rp.path, r.Obl.Name, r.Status)
			} else {
				say("VIOLATION property=%s replay=%s obligation=%s status=%s no-failing-input-found", *prop, rp.path, r.Obl.Name, r.Status)
			}
		}
	}
	// claimed groups that disappeared - or whose function hit the generation budget: the obligations of the paths
	// that were explored say nothing about the paths that were not
	var missing []string
	for n := range base.Groups {
		if g, ok := gs[n]; !ok {
			missing = append(missing, n)
		} else if len(g.Bad) == 0 {
			for short, f := range funcStatus {
				if f.CapHit && strings.HasPrefix(n, short+"/") {
					missing = append(missing, n)
					break
				}
			}
		}
	}
	sort.Strings(missing)
	for _, n := range missing {
		fn := strings.SplitN(n, "/", 2)[0]
		// group names start with the short function name, which itself contains slashes: match by prefix
		reason := "obligation no longer generated (call site or clause removed)"
		for short, f := range funcStatus {
			if strings.HasPrefix(n, short+"/") {
				fn = short
				if f.Stale {
					reason = "stale contract"
				} else if f.Err != "" {
					reason = f.Err
				} else if f.CapHit {
					reason = "cap"
				} else {
					for lbl, msg := range f.ClauseErrs {
						if strings.Contains(n, "/"+lbl+"/") {
							reason = "clause not interpretable on this code (" + msg + ")"
						}
					}
				}
			}
		}
		if reason == "cap" {
			// the function was verified within the generation budget on the pinned tree and is not any more: like a
			// solver timeout on a claimed obligation, the property is no longer shown for this code
			violations++
			exit = max(exit, 1)
			os.MkdirAll(replayDir, 0o755)
			rp := filepath.Join(replayDir, sanitizeName(n)+".replay.txt")
			os.WriteFile(rp, []byte(fmt.Sprintf("obligation group: %s\nproperty: %s\nstatus: verification-condition generation for %s exceeded its budget (path cap / %s / %d feasibility queries); on the pinned tree the group was generated and discharged\n", n, *prop, fn, vc.GenTimeBudget, vc.GenPruneBudget)), 0o644)
			say("VIOLATION property=%s replay=%s obligation=%s status=generation-budget-exceeded no-failing-input-found", *prop, rp, n)
			continue
		}
		say("UNDECIDED property=%s group=%s function=%s reason=%s", *prop, n, fn, reason)
	}
	// static (syntactic) obligations, re-derived from the working tree
	statics := staticObligations(*prop)
	for _, so := range statics {
		claimed++
		if so.OK {
			discharged++
			continue
		}
		violations++
		exit = max(exit, 1)
		os.MkdirAll(replayDir, 0o755)
		rp := filepath.Join(replayDir, sanitizeName(so.Name)+".replay.txt")
		os.WriteFile(rp, []byte(fmt.Sprintf("obligation: %s\nproperty: %s\nkind: static\nclause: %s\nfound in working tree: %s\n", so.Name, *prop, so.Src, so.Detail)), 0o644)
		say("VIOLATION property=%s replay=%s obligation=%s status=static-mismatch (%s) no-failing-input-found", *prop, rp, so.Name, so.Detail)
	}
	// thorough tier: the hand-written replays of known findings are re-run on the real code
	knownReplay := map[string]string{}
	if *tier == "thorough" {
		for _, k := range known {
			if k.Property != *prop || k.ReplayFile == "" {
				continue
			}
			res := runKnownReplay(k)
			knownReplay[k.ID] = res
			say("known-finding replay %s (%s): %s", k.ID, k.Status, res)
			if k.Status == "fixed" && res == "fails (defect reproduces)" {
				violations++
				exit = max(exit, 1)
				say("VIOLATION property=%s replay=%s obligation=known-finding:%s status=fixed-defect-returned", *prop, filepath.Join(verifDir(), k.ReplayFile), k.ID)
			}
		}
	}
	rc.knownReplay = knownReplay
	if claimed == 0 && exit == 0 {
		say("exovc: no claimed obligation was generated for %s (machinery broken)", *prop)
		exit = 2
	}
	rc.writeEvidence(*prop, *tier, seed, claimed, discharged, violations, unclaimed, known, knownHit, time.Since(t0).Seconds(), lines)
	fmt.Printf("exovc: property=%s tier=%s claimed=%d discharged=%d unclaimed_groups=%d violations=%d load=%.1fs gen=%.1fs solve=%.1fs\n",
		*prop, *tier, claimed, discharged, len(unclaimed), violations, rc.loadS, rc.genS, rc.solveS)
	return exit
}

func max(a, b int) int {
	if a > b {
		return a
	}
	return b
}

// matchKnown: a known finding covers a group if listed and every failing site is among the recorded sites
// (when sites are recorded); otherwise the extra sites are new violations.
func matchKnown(known []*KnownFinding, prop, group string, g *groupStat) *KnownFinding {
	for _, k := range known {
		if k.Property != prop || k.Status != "known" {
			continue
		}
		for _, kg := range k.Groups {
			if kg == group {
				return k
			}
		}
	}
	return nil
}

func (rc *runCtx) writeEvidence(prop, tier string, seed, claimed, discharged, violations int, unclaimed []map[string]interface{},
	known []*KnownFinding, knownHit map[string]bool, wall float64, lines []string) {
	perBackend := map[string]int{}
	solverTime := 0.0
	var samples []interface{}
	for _, r := range rc.results {
		if r.Backend != "" {
			perBackend[r.Backend]++
		}
		solverTime += r.Seconds
	}
	n := 0
	for _, r := range rc.results {
		if r.Obl.Cover || r.Status != "unsat" {
			continue
		}
		if n%7 == 0 && len(samples) < 5 {
			samples = append(samples, map[string]interface{}{"obligation": r.Obl.Name, "kind": r.Obl.Kind, "clause": r.Obl.Src,
				"path_condition_conjuncts": len(r.Obl.PC), "goal": truncateStr(r.Obl.Goal.S, 300), "backend": r.Backend, "seconds": round2(r.Seconds)})
		}
		n++
	}
	if len(samples) == 0 && len(rc.results) > 0 {
		r := rc.results[0]
		samples = append(samples, map[string]interface{}{"obligation": r.Obl.Name, "status": r.Status})
	}
	var funcs []map[string]interface{}
	var assumptions []string
	for _, f := range rc.funcs {
		m := map[string]interface{}{"function": vc.ShortName(f.Func), "obligations": len(f.Obls), "paths": f.Paths, "returns": f.Returns}
		if f.Err != "" {
			m["error"] = f.Err
		}
		if f.Bounded {
			m["bounded"] = true
		}
		if len(f.Inlined) > 0 {
			m["inlined"] = f.Inlined
		}
		if len(f.Havocs) > 0 {
			m["havoc_calls"] = f.Havocs
		}
		if len(f.Notes) > 0 {
			m["notes"] = f.Notes
		}
		funcs = append(funcs, m)
	}
	var trusted []string
	for k := range rc.ex.Assumed {
		trusted = append(trusted, k)
	}
	sort.Strings(trusted)
	for _, ct := range rc.cs.ByFunc {
		if ct.Flags["assumed"] != "" {
			if rc.ex.Assumed["assumed-contract:"+vc.ShortName(ct.Func)] {
				assumptions = append(assumptions, "assumed (unverified) contract of "+vc.ShortName(ct.Func))
			}
		}
	}
	sort.Strings(assumptions)
	assumptions = append(assumptions,
		"partial correctness: termination is not proved; a path that panics in a library call satisfies every postcondition vacuously (panic-freedom is a separate nopanic obligation where claimed)",
		"Go fixed-width integers are modelled exactly (wrap-around mod 2^w); math.Int / LegacyDec / *big.Int are unbounded integers with the library's 256/315-bit panics as explicit conditions",
		"strings and byte slices are an algebraic datatype (literals, cat, key families); byte strings built by different constructors are assumed different; key constructors are assumed injective",
		"protobuf codec: Unmarshal(Marshal(x)) = x (assumed), marshal never fails",
		"store gas metering, events, logs and telemetry are dropped; stores never run out of gas",
		"pointer parameters of equal pointee type are assumed non-aliased (discharged at call sites under contract)",
		"callee behaviour is taken from contracts (modular); contract-less loop-free repo helpers are inlined (listed per function)",
		"SMT solvers z3 5.1.0 / z3 4.8.12 / cvc5 1.0.3 are trusted; thorough tier cross-checks every unsat with a second solver where it answers")
	var kfOut []map[string]interface{}
	for _, k := range known {
		if k.Property == prop {
			kfOut = append(kfOut, map[string]interface{}{"id": k.ID, "status": k.Status, "obligation_failed_this_run": knownHit[k.ID], "what_fails": k.What,
				"replay_on_real_code": rc.knownReplay[k.ID]})
		}
	}
	ev := map[string]interface{}{
		"property_id": prop, "tier": tier, "seed": seed, "level": "proof",
		"coverage": map[string]interface{}{
			"obligations": claimed, "discharged": discharged,
			"checker_cmd":              fmt.Sprintf("bin/exovc check -p %s -tier %s", prop, tier),
			"trusted_base":             trusted,
			"samples":                  samples,
			"functions_under_contract": funcs,
			"per_backend":              perBackend,
			"solver_time_s":            round2(solverTime),
			"load_s":                   round2(rc.loadS), "vcgen_s": round2(rc.genS), "solve_wall_s": round2(rc.solveS),
			"total_obligations_generated": len(rc.results),
			"unclaimed":                   unclaimed,
			"known_findings":              kfOut,
			"contract_files":              rc.cs.Files,
			"explanation":                 "obligations = claimed (baseline) verification conditions generated from the go/ssa of /repo's working tree for the functions under contract; discharged = those proved unsat by an SMT solver in this run; unclaimed groups are evaluated and reported but never counted",
			"messages":                    lines,
		},
		"assumptions": assumptions,
		"wall_s":      round2(wall),
		"violations":  violations,
	}
	data, _ := json.MarshalIndent(ev, "", " ")
	os.MkdirAll(filepath.Join(verifDir(), "evidence"), 0o755)
	os.WriteFile(filepath.Join(verifDir(), "evidence", prop+".json"), append(data, '\n'), 0o644)
}

func truncateStr(s string, n int) string {
	if len(s) > n {
		return s[:n] + "..."
	}
	return s
}

type replayOut struct {
	path      string
	confirmed bool
}

// writeReplay records the failed obligation: name, clause, SMT file, solver output and model.
// Replays on the real code are attempted for function classes with a harness (see replay.go).
func (rc *runCtx) writeReplay(dir string, r *vc.SolveResult) replayOut {
	os.MkdirAll(dir, 0o755)
	base := filepath.Join(dir, sanitizeName(r.Obl.Name))
	model := ""
	if r.Status == "sat" {
		model, _ = rc.ex.ModelFor(r.Obl, dir, 20*time.Second)
	}
	var sb strings.Builder
	fmt.Fprintf(&sb, "obligation: %s\nproperty: %s\nfunction: %s\nkind: %s\nclause: %s\nsolver status: %s\nattempts: %s\nsmt file: %s\n",
		r.Obl.Name, rc.prop, r.Obl.Func, r.Obl.Kind, r.Obl.Src, r.Status, strings.Join(r.Attempts, " "), r.File)
	fmt.Fprintf(&sb, "\n--- solver output ---\n%s\n", truncateStr(r.Output, 4000))
	if model != "" {
		fmt.Fprintf(&sb, "\n--- model ---\n%s\n", truncateStr(model, 20000))
	}
	confirmed := false
	if model != "" {
		if res := tryReplay(rc, r, model, base); res != "" {
			fmt.Fprintf(&sb, "\n--- replay on real code ---\n%s\n", res)
			confirmed = strings.Contains(res, "REPLAY-CONFIRMED")
		}
	}
	p := base + ".replay.txt"
	os.WriteFile(p, []byte(sb.String()), 0o644)
	return replayOut{path: p, confirmed: confirmed}
}

func sanitizeName(s string) string {
	var sb strings.Builder
	for _, r := range s {
		switch {
		case r >= 'a' && r <= 'z', r >= 'A' && r <= 'Z', r >= '0' && r <= '9', r == '_', r == '.', r == '-':
			sb.WriteRune(r)
		default:
			sb.WriteRune('_')
		}
	}
	return sb.String()
}

func selfcheckCmd(args []string) int {
	ok := true
	for _, s := range []string{"z3-new", "z3", "cvc5"} {
		if _, err := lookPath(s); err != nil {
			fmt.Println("missing solver:", s)
			ok = false
		}
	}
	if _, err := vc.LoadPrelude(verifDir() + "/spec"); err != nil {
		fmt.Println("prelude:", err)
		ok = false
	}
	if !ok {
		return 2
	}
	fmt.Println("exovc selfcheck ok")
	return 0
}

func replayCmd(args []string) int {
	if len(args) < 1 {
		fmt.Println("usage: exovc replay <file>")
		return 2
	}
	data, err := os.ReadFile(args[0])
	if err != nil {
		fmt.Println(err)
		return 2
	}
	fmt.Print(string(data))
	return 0
}

var gRefRe = regexp.MustCompile(`g\("([^"]+)\.[A-Za-z0-9_]+"\)`)

// globalRefPackages lists the packages whose package-level constants are referenced by g("pkg.Name") in contract files.
func globalRefPackages(files []string) []string {
	seen := map[string]bool{}
	for _, f := range files {
		data, err := os.ReadFile(f)
		if err != nil {
			continue
		}
		for _, m := range gRefRe.FindAllStringSubmatch(string(data), -1) {
			seen["./"+m[1]] = true
		}
	}
	var out []string
	for p := range seen {
		out = append(out, p)
	}
	sort.Strings(out)
	return out
}

// runKnownReplay runs the hand-written replay test of a known finding on the real code through go test -overlay.
func runKnownReplay(k *KnownFinding) string {
	dir := filepath.Join(repoDir(), k.ReplayPkg)
	ov := map[string]map[string]string{"Replace": {filepath.Join(dir, "zz_verif_known_replay_test.go"): filepath.Join(verifDir(), k.ReplayFile)}}
	b, _ := json.Marshal(ov)
	ovf := filepath.Join(os.TempDir(), fmt.Sprintf("exovc_known_%d.json", os.Getpid()))
	os.WriteFile(ovf, b, 0o644)
	defer os.Remove(ovf)
	cmd := execCommand("go", "test", "-overlay", ovf, "-vet=off", "-count=1", "-timeout", "300s", "-run", k.ReplayRun, ".")
	cmd.Dir = dir
	cmd.Env = append(os.Environ(), "GOFLAGS=-mod=mod", "GOPROXY=off", "GOSUMDB=off", "GOTOOLCHAIN=local")
	out, err := cmd.CombinedOutput()
	if err == nil {
		return "passes (defect does not reproduce)"
	}
	if strings.Contains(string(out), "--- FAIL") {
		return "fails (defect reproduces)"
	}
	return "could not run: " + truncateStr(string(out), 200)
}
